"""Calls from the refusal table of spec/API.tla (code -> spec direction).

One record per call:  {"op": "refusal", "api": ..., <the arguments the table reads>, "raised": <exception class or "none">,
"same": <receiver projection unchanged by a refused call>}.  TLC compares `raised` with API!Refusal (clause
Drift_Refusal of TraceBase: model drift, never a verdict -- the refusals the properties state themselves are
clauses of their own trace specifications).
"""
import numpy


def scenarios(family, rng, n_rounds=6):
    if family == "circuit":
        for t in range(n_rounds):
            n = rng.choice((1, 2, 3, 5, 8))
            for api in ("CliffordCircuit.take", "CliffordCircuit.gate", "Circuit.take", "Circuit.gate", "Circuit.measure"):
                k = rng.randrange(1, min(n, 3) + 1)
                qs = rng.sample(range(1, n + 1), k)
                yield {"k": "call", "api": api, "n": n, "qs": qs, "pre": rng.randrange(3), "pkg": "py"}
                bad = list(qs)
                bad[rng.randrange(k)] = n + rng.choice((1, 2, 7))
                yield {"k": "call", "api": api, "n": n, "qs": bad, "pre": rng.randrange(3), "pkg": "py"}
            m = rng.choice((n, n, n + 1, max(1, n - 1)))
            yield {"k": "call", "api": "CliffordCircuit.compose", "n": n, "m": m, "pkg": "py"}
            for api in ("CliffordGate.compile", "CliffordLayer.compile", "CliffordCircuit.compile"):
                yield {"k": "call", "api": api, "n": 4, "unspecified": rng.choice((0, 0, 1, 2)), "how": rng.choice(("gen", "fwd", "bwd"))}
            for api, good in (("CliffordGate.set_generator", "Pauli"), ("CliffordGate.set_forward_map", "CliffordMap"),
                              ("CliffordGate.set_backward_map", "CliffordMap")):
                for arg in (good, "str", "PauliList", "int", "StabilizerState", "None") + (("CliffordMap",) if good == "Pauli" else ("Pauli",)):
                    yield {"k": "call", "api": api, "arg": arg}
            yield {"k": "call", "api": "Circuit.povm", "n": 3, "measures": t % 3, "pkg": "py"}
    elif family == "syntax":
        for t in range(n_rounds):
            n = rng.choice((1, 2, 4, 7))
            qs = rng.sample(range(1, n + 1), rng.randrange(1, n + 1))
            yield {"k": "call", "api": "pauli.dict", "n": n, "qs": qs, "hasN": True}
            yield {"k": "call", "api": "pauli.dict", "n": n, "qs": qs, "hasN": False}
            yield {"k": "call", "api": "pauli.dict", "n": n, "qs": qs + [n + 1 + t % 2], "hasN": True}
            for arg in ("Pauli", "tuple", "list", "ndarray", "dict", "str", "int", "float", "set", "None", "PauliList"):
                yield {"k": "call", "api": "pauli.type", "arg": arg, "pkg": "py"}
            for c in (1, -1, 1j, -1j, 2, 0.5, 0, 1 + 1j, -2j):
                yield {"k": "call", "api": "PauliList.scale", "c": [c.real, c.imag] if isinstance(c, complex) else [c, 0], "unit": c in (1, -1, 1j, -1j)}
    elif family == "state":
        for t in range(n_rounds):
            n = rng.choice((1, 2, 3, 5))
            for ln in (n, n + 1, max(0, n - 1)):
                if ln != 0:
                    yield {"k": "call", "api": "StabilizerState.get_prob", "n": n, "len": ln}
            qs = rng.sample(range(1, n + 1), rng.randrange(1, n + 1))
            yield {"k": "call", "api": "StabilizerState.entropy", "n": n, "qs": qs, "pkg": "py"}
            yield {"k": "call", "api": "StabilizerState.entropy", "n": n, "qs": qs + [n + 1 + t % 3], "pkg": "py"}
            yield {"k": "call", "api": "StabilizerState.postselect", "n": n, "r": rng.randrange(n + 1), "pkg": "py"}
            yield {"k": "call", "api": "StabilizerState.measure", "n": n, "m": n, "pkg": "py"}
            if n > 1:
                yield {"k": "call", "api": "StabilizerState.measure", "n": n, "m": n - 1, "pkg": "py"}
    elif family == "diag":
        for arg in ("Pauli", "StabilizerState", "PauliList", "PauliPolynomial", "CliffordMap"):
            yield {"k": "call", "api": "diagonalize", "arg": arg}
        yield {"k": "call", "api": "diagonalize", "arg": "PauliMonomial", "pkg": "py"}      # torch's diagonalize accepts Pauli and states only


def _arg(be, kind, n=2):
    P, St = be.paulialg, be.stabilizer
    if kind == "Pauli":
        return be.pauli([1, 3][:n] + [0] * (n - 2) + [0])
    if kind == "PauliMonomial":
        return 0.5 * be.pauli([1, 3, 0])
    if kind == "PauliPolynomial":
        return be.pauli([1, 3, 0]) + be.pauli([3, 3, 0])
    if kind == "PauliList":
        return be.plist([[1, 3, 0], [3, 3, 0]])
    if kind == "CliffordMap":
        return St.identity_map(n)
    if kind == "StabilizerState":
        return St.zero_state(n)
    return {"str": "XZ", "int": 3, "float": 0.5, "None": None, "set": {1, 2}, "tuple": (1, 3), "list": [1, 3],
            "ndarray": numpy.array([1, 3]), "dict": {0: 1}}[kind]


def execute(scn, be):
    api = scn["api"]
    C = be.circuit
    rec = {"op": "refusal"}
    rec.update({k: v for k, v in scn.items() if k not in ("k", "pkg", "pre", "how", "c")})
    raised = "none"
    same = None
    try:
        if api in ("CliffordCircuit.take", "CliffordCircuit.gate", "Circuit.take", "Circuit.gate", "Circuit.measure"):
            n = scn["n"]
            circ = C.identity_circuit(n) if api.startswith("CliffordCircuit") else C.Circuit(n)
            for j in range(scn.get("pre", 0)):
                circ.gate(j % n)
            before = repr(circ)
            qs0 = [q - 1 for q in scn["qs"]]
            try:
                if api.endswith(".take"):
                    circ.take(C.CliffordGate(*qs0))
                elif api.endswith(".gate"):
                    circ.gate(*qs0)
                else:
                    circ.measure(*qs0)
            finally:
                same = repr(circ) == before
        elif api == "CliffordCircuit.compose":
            a, b = C.identity_circuit(scn["n"]), C.identity_circuit(scn["m"])
            a.take(C.H(0))
            b.take(C.S(0))
            before = repr(a)
            try:
                a.compose(b)
            finally:
                same = repr(a) == before
        elif api.endswith(".compile"):
            gates = []
            for j in range(3):
                g = C.CliffordGate(j)
                if j >= scn["unspecified"]:
                    if scn["how"] == "gen":
                        g.set_generator(be.pauli([1 + j, 0]))
                    elif scn["how"] == "fwd":
                        g.set_forward_map(be.stabilizer.clifford_rotation_map(be.pauli([1 + j, 0])))
                    else:
                        g.set_backward_map(be.stabilizer.clifford_rotation_map(be.pauli([1 + j, 0])))
                gates.append(g)
            if api == "CliffordGate.compile":
                # the first gate is the unspecified one when there is any
                gates[0].compile()
            elif api == "CliffordLayer.compile":
                lay = C.CliffordLayer(*gates)
                lay.compile(4)
            else:
                circ = C.identity_circuit(4)
                for g in reversed(gates):
                    circ.take(g)
                circ.compile()
        elif api.startswith("CliffordGate.set_"):
            g = C.CliffordGate(0, 1)
            getattr(g, api.split(".")[1])(_arg(be, scn["arg"]))
        elif api == "Circuit.povm":
            circ = C.Circuit(scn["n"])
            circ.take(C.H(0))
            for j in range(scn["measures"]):
                circ.measure(j)
            list(circ.povm(2))
        elif api == "diagonalize":
            C.diagonalize(_arg(be, scn["arg"]))
        elif api == "pauli.dict":
            d = {q - 1: "XYZ"[q % 3] for q in scn["qs"]}
            if scn["hasN"]:
                be.paulialg.pauli(d, scn["n"])
            else:
                be.paulialg.pauli(d)
        elif api == "pauli.type":
            if scn["arg"] == "dict":
                be.paulialg.pauli(_arg(be, "dict"), 3)
            else:
                be.paulialg.pauli(_arg(be, scn["arg"]))
        elif api == "PauliList.scale":
            c = complex(*scn["c"])
            if c.imag == 0:
                c = c.real
                if c == int(c):
                    c = int(c)
            c * be.plist([[1, 3, 0], [3, 3, 1]])
        elif api == "StabilizerState.get_prob":
            S = be.stabilizer.zero_state(scn["n"])
            S.get_prob(be.ivec([0] * scn["len"]))
        elif api == "StabilizerState.entropy":
            S = be.stabilizer.ghz_state(scn["n"])
            S.entropy([q - 1 for q in scn["qs"]])
        elif api == "StabilizerState.measure":
            S = be.stabilizer.zero_state(scn["n"])
            before = be.p_state(S)
            try:
                S.measure(be.plist([[1] + [0] * (scn["m"] - 1) + [0]]))       # X on the first qubit: anticommutes with row 0
            except Exception:
                same = be.p_state(S) == before
                raise
        elif api == "StabilizerState.postselect":
            S = be.stabilizer.maximally_mixed_state(scn["n"])
            S = be.stabilizer.StabilizerState(S.gs, ps=S.ps).set_r(scn["r"]) if hasattr(S, "gs") else S
            before = be.p_state(S)
            try:
                S.postselect(be.pauli([3] + [0] * (scn["n"] - 1) + [0]), 0)
            except Exception:
                same = be.p_state(S) == before
                raise
    except Exception as e:
        raised = type(e).__name__
    rec["raised"] = raised
    if same is not None and raised != "none":
        rec["same"] = bool(same)
    return [rec]
