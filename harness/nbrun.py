"""Run the code cells of the repository's documentation notebooks (doc/*.ipynb) under the recorder: the calls
real users are shown how to make become NDJSON records for the trace specifications (code -> spec direction).

Run as  `python -m harness.nbrun <notebook.ipynb> ...`  with PYTHONPATH=/verif and VERIF_REC_DIR set.  Cells are
executed in one namespace per notebook; IPython magics are dropped; a cell that raises (missing matplotlib,
an API that no longer exists) is skipped and the notebook continues.  Nothing in the repository is changed.
"""
import json
import os
import signal
import sys


def cells(path):
    d = json.load(open(path))
    for c in d.get("cells", []):
        if c.get("cell_type") == "code":
            src = "".join(c.get("source", []))
            yield "\n".join(("pass  # " + ln) if ln.lstrip().startswith(("%", "!")) else ln for ln in src.splitlines())


class _Timeout(Exception):
    pass


def _alarm(signum, frame):
    raise _Timeout()


def main(paths):
    from . import backend, recorder_plugin
    for name in ("py", "torch"):
        try:
            recorder_plugin._install(backend.get(name))
            recorder_plugin._install_more(backend.get(name))
        except Exception as e:
            sys.stderr.write("nbrun: %s not instrumented: %s\n" % (name, e))
    signal.signal(signal.SIGALRM, _alarm)
    stats = {}
    for p in paths:
        os.chdir(os.path.dirname(os.path.abspath(p)))
        if sys.path[0] != os.getcwd():
            sys.path.insert(0, os.getcwd())      # as in Jupyter: the notebook's directory (doc/context.py)
        ns = {"__name__": "__main__"}
        ok = bad = 0
        for src in cells(p):
            try:
                signal.alarm(60)
                exec(compile(src, os.path.basename(p), "exec"), ns)
                ok += 1
            except _Timeout:
                bad += 1
            except BaseException as e:      # noqa: a broken cell must not stop the notebook
                if isinstance(e, KeyboardInterrupt):
                    raise
                bad += 1
                if os.environ.get("VERIF_NB_DEBUG"):
                    sys.stderr.write("cell failed: %s: %s\n   %s\n" % (type(e).__name__, str(e)[:200], src.strip().splitlines()[0][:100] if src.strip() else ""))
            finally:
                signal.alarm(0)
        stats[os.path.basename(p)] = [ok, bad]
    d = os.environ.get("VERIF_REC_DIR")
    if d:
        json.dump(stats, open(os.path.join(d, "notebooks.json"), "w"))
    sys.stderr.write("nbrun: %s\n" % stats)


if __name__ == "__main__":
    main(sys.argv[1:])
