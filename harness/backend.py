"""Backend adapters: build library objects from the wire encoding and project them back.

Wire encoding (DESIGN.md 2.4):  a Pauli operator is a list [l_1, ..., l_n, k] with letters
0=I 1=X 2=Y 3=Z and phase k in 0..3 (Hermitian-letter convention = the library's (g, p)).
A letter 9 / phase 9 marks a value that is not a bit / not an integer power of i: the
projection is total, and the spec's WellFormed clause rejects such records.

This file contains *no* Pauli algebra: only the 4-entry table bits<->letters.
"""
import os
import sys

REPO = os.environ.get("VERIF_REPO", "/repo")
if REPO not in sys.path:
    sys.path.insert(0, REPO)
os.environ.setdefault("PYTHONHASHSEED", "0")

import warnings
warnings.filterwarnings("ignore")
import numpy

_L2B = {0: (0, 0), 1: (1, 0), 2: (1, 1), 3: (0, 1)}
_B2L = {(0, 0): 0, (1, 0): 1, (1, 1): 2, (0, 1): 3}


def _as_int(v):
    """exact integer value of a numpy / torch / python scalar, or None"""
    try:
        if hasattr(v, "item"):
            v = v.item()
        if isinstance(v, bool):
            return int(v)
        if isinstance(v, int):
            return v
        if isinstance(v, float) and v == int(v):
            return int(v)
        if isinstance(v, complex) and v.imag == 0 and v.real == int(v.real):
            return int(v.real)
    except Exception:
        pass
    return None


def wire_bits(w):
    g = []
    for l in w[:-1]:
        g.extend(_L2B[l])
    return g, w[-1]


def bits_wire(g, p):
    g = [(_as_int(x)) for x in list(g)]
    out = []
    for j in range(len(g) // 2):
        out.append(_B2L.get((g[2 * j], g[2 * j + 1]), 9))
    k = _as_int(p)
    out.append(9 if k is None else k % 4)
    return out


class PyBackend(object):
    name = "py"

    def __init__(self):
        import pyclifford
        assert os.path.realpath(pyclifford.__file__).startswith(os.path.realpath(REPO) + os.sep), \
            "pyclifford imported from %s, expected under %s" % (pyclifford.__file__, REPO)
        import pyclifford.utils, pyclifford.paulialg, pyclifford.stabilizer, pyclifford.circuit, pyclifford.device
        self.lib = pyclifford
        self.utils = pyclifford.utils
        self.paulialg = pyclifford.paulialg
        self.stabilizer = pyclifford.stabilizer
        self.circuit = pyclifford.circuit
        self.device = pyclifford.device

    # ---- arrays
    def ivec(self, xs):
        return numpy.array(list(xs), dtype=numpy.int_)

    def imat(self, rows, ncols=None):
        rows = [list(r) for r in rows]
        if not rows:
            return numpy.zeros((0, ncols or 0), dtype=numpy.int_)
        return numpy.array(rows, dtype=numpy.int_)

    def cvec(self, xs):
        return numpy.array(list(xs), dtype=numpy.complex128)

    def bvec(self, xs):
        return numpy.array(list(xs), dtype=numpy.bool_)

    def tolist(self, a):
        return a.tolist() if hasattr(a, "tolist") else list(a)

    def clone(self, a):
        return a.copy()

    # ---- objects
    def pauli(self, w):
        g, p = wire_bits(w)
        return self.paulialg.Pauli(self.ivec(g), p)

    def plist(self, ws, n=None):
        gs, ps = [], []
        for w in ws:
            g, p = wire_bits(w)
            gs.append(g)
            ps.append(p)
        return self.paulialg.PauliList(self.imat(gs, 2 * (n or 0)), self.ivec(ps))

    def poly(self, ws, cs, n=None):
        l = self.plist(ws, n)
        return self.paulialg.PauliPolynomial(l.gs, l.ps).set_cs(self.cvec(cs))

    def cmap(self, ws):
        l = self.plist(ws)
        return self.stabilizer.CliffordMap(l.gs, l.ps)

    def state(self, ws, r):
        l = self.plist(ws)
        return self.stabilizer.StabilizerState(gs=l.gs, ps=l.ps, r=r)

    def freeze(self, L):
        """the user's arrays are read-only (memory-mapped files, buffers, broadcast views ...): an operation that only reads
        an operand must not try to write into it"""
        for f in ("gs", "ps", "g"):
            a = getattr(L, f, None)
            if isinstance(a, numpy.ndarray):
                a.setflags(write=False)
        return L

    def retype(self, L, gdt, pdt):
        """same content, other element types of the user's arrays (uint8 parity-check bits, int32 phases, float64 ...)"""
        L.gs = L.gs.astype(getattr(numpy, gdt))
        if pdt:
            L.ps = L.ps.astype(getattr(numpy, pdt))
        return L

    def relayout(self, L, layout):
        """same content, other memory layout of gs / ps (what slicing, transposition or .inverse() hand to users):
        "rev" = reversed view of a reversed copy, "step" = every second row of an interleaved array,
        "fortran" = column-major, "cols" = the left block of a wider array"""
        gs, ps = L.gs, L.ps
        if layout == "rev":
            gs2, ps2 = gs[::-1].copy()[::-1], ps[::-1].copy()[::-1]
        elif layout == "step":
            wide = numpy.ones((2 * gs.shape[0], gs.shape[1]), dtype=gs.dtype)
            wide[::2] = gs
            pw = numpy.ones(2 * ps.shape[0], dtype=ps.dtype)
            pw[::2] = ps
            gs2, ps2 = wide[::2], pw[::2]
        elif layout == "fortran":
            gs2, ps2 = numpy.asfortranarray(gs), ps
        elif layout == "cols":
            wide = numpy.ones((gs.shape[0], gs.shape[1] + 3), dtype=gs.dtype)
            wide[:, :gs.shape[1]] = gs
            gs2, ps2 = wide[:, :gs.shape[1]], ps
        else:
            raise ValueError(layout)
        L.gs, L.ps = gs2, ps2
        return L

    # ---- projections
    def p_pauli(self, P):
        return bits_wire(self.tolist(P.g), P.p)

    def p_list(self, L):
        gs, ps = self.tolist(L.gs), self.tolist(L.ps)
        return [bits_wire(g, p) for g, p in zip(gs, ps)]

    def p_rows(self, gs, ps):
        return [bits_wire(g, p) for g, p in zip(self.tolist(gs), self.tolist(ps))]

    def p_state(self, S):
        r = _as_int(S.r)
        return {"rows": self.p_list(S), "r": -1 if r is None else r}

    def p_ints(self, a):
        out = []
        for v in self.tolist(a):
            i = _as_int(v)
            out.append(-99 if i is None else i)
        return out

    def seed(self, s):
        numpy.random.seed(s)
        _nseed(s)


_nseed_fn = None


def _nseed(s):
    """seed numba's generator (the one the @njit kernels draw from)"""
    global _nseed_fn
    if _nseed_fn is None:
        from numba import njit

        @njit
        def f(x):
            numpy.random.seed(x)
        _nseed_fn = f
    _nseed_fn(s)


class TorchBackend(object):
    name = "torch"

    def __init__(self):
        import torch
        import torchclifford
        assert os.path.realpath(torchclifford.__file__).startswith(os.path.realpath(REPO) + os.sep), \
            "torchclifford imported from %s, expected under %s" % (torchclifford.__file__, REPO)
        import torchclifford.utils, torchclifford.paulialg, torchclifford.stabilizer, torchclifford.circuit
        self.torch = torch
        self.lib = torchclifford
        self.utils = torchclifford.utils
        self.paulialg = torchclifford.paulialg
        self.stabilizer = torchclifford.stabilizer
        self.circuit = torchclifford.circuit
        torch.set_num_threads(1)

    def ivec(self, xs):
        return self.torch.tensor(list(xs), dtype=self.torch.float32)

    def imat(self, rows, ncols=None):
        rows = [list(r) for r in rows]
        if not rows:
            return self.torch.zeros((0, ncols or 0), dtype=self.torch.float32)
        return self.torch.tensor(rows, dtype=self.torch.float32)

    def cvec(self, xs):
        return self.torch.tensor(list(xs), dtype=self.torch.complex64)

    def bvec(self, xs):
        return self.torch.tensor(list(xs), dtype=self.torch.bool)

    def tolist(self, a):
        return a.tolist() if hasattr(a, "tolist") else list(a)

    def clone(self, a):
        return a.clone()

    def pauli(self, w):
        g, p = wire_bits(w)
        return self.paulialg.Pauli(self.ivec(g), p)

    def plist(self, ws, n=None):
        gs, ps = [], []
        for w in ws:
            g, p = wire_bits(w)
            gs.append(g)
            ps.append(p)
        return self.paulialg.PauliList(self.imat(gs, 2 * (n or 0)), self.ivec(ps))

    def poly(self, ws, cs, n=None):
        l = self.plist(ws, n)
        return self.paulialg.PauliPolynomial(l.gs, l.ps).set_cs(self.cvec(cs))

    def cmap(self, ws):
        l = self.plist(ws)
        return self.stabilizer.CliffordMap(l.gs, l.ps)

    def state(self, ws, r):
        l = self.plist(ws)
        return self.stabilizer.StabilizerState(gs=l.gs, ps=l.ps, r=r)

    def retype(self, L, gdt, pdt):
        tt = {"int32": self.torch.int32, "int8": self.torch.int8, "uint8": self.torch.uint8, "uint64": self.torch.int64,
              "float64": self.torch.float64, "int64": self.torch.int64}
        L.gs = L.gs.to(tt[gdt])
        if pdt:
            L.ps = L.ps.to(tt[pdt])
        return L

    def relayout(self, L, layout):
        torch = self.torch
        gs, ps = L.gs, L.ps
        if layout in ("step", "rev"):
            wide = torch.ones((2 * gs.shape[0], gs.shape[1]), dtype=gs.dtype)
            wide[::2] = gs
            pw = torch.ones(2 * ps.shape[0], dtype=ps.dtype)
            pw[::2] = ps
            gs2, ps2 = wide[::2], pw[::2]
        elif layout == "fortran":
            gs2, ps2 = gs.t().contiguous().t(), ps
        elif layout == "cols":
            wide = torch.ones((gs.shape[0], gs.shape[1] + 3), dtype=gs.dtype)
            wide[:, :gs.shape[1]] = gs
            gs2, ps2 = wide[:, :gs.shape[1]], ps
        else:
            raise ValueError(layout)
        L.gs, L.ps = gs2, ps2
        return L

    def p_pauli(self, P):
        return bits_wire(self.tolist(P.g), P.p)

    def p_list(self, L):
        gs, ps = self.tolist(L.gs), self.tolist(L.ps)
        return [bits_wire(g, p) for g, p in zip(gs, ps)]

    def p_rows(self, gs, ps):
        return [bits_wire(g, p) for g, p in zip(self.tolist(gs), self.tolist(ps))]

    def p_state(self, S):
        r = _as_int(S.r)
        return {"rows": self.p_list(S), "r": -1 if r is None else r}

    def p_ints(self, a):
        out = []
        for v in self.tolist(a):
            i = _as_int(v)
            out.append(-99 if i is None else i)
        return out

    def seed(self, s):
        self.torch.manual_seed(s)
        numpy.random.seed(s)


_cache = {}


def get(name):
    if name not in _cache:
        _cache[name] = PyBackend() if name == "py" else TorchBackend()
    return _cache[name]


# ---- exact numbers ---------------------------------------------------------------
def dyadic(x):
    """float -> [num, e] with x == num / 2**e, e <= 12.  Float rounding is outside the model
    (DESIGN 2.7-5): a value within 1e-5 of a multiple of 2^-12 is that multiple (torch's complex64
    powers of i carry ~1e-7 noise); anything else is returned as None (inexact)."""
    if hasattr(x, "item"):
        x = x.item()
    if isinstance(x, (bool, int)):
        return [int(x), 0] if abs(int(x)) < 2 ** 20 else None
    if isinstance(x, complex):
        if abs(x.imag) > 1e-5:
            return None
        x = x.real
    if not isinstance(x, float) or x != x or x in (float("inf"), float("-inf")) or abs(x) >= 2 ** 18:
        return None
    q = round(x * 4096)
    if abs(x * 4096 - q) > 1e-5 * 4096:
        return None
    e = 12
    while e > 0 and q % 2 == 0:
        q //= 2
        e -= 1
    return [q, e]


def dyadic_fine(x, emax=24, tol=1e-6):
    """double-precision variant for pyclifford results: x == num / 2**e exactly (up to 1e-6 units of 2^-emax),
    e <= emax, |num| < 2^30 (used where a deviation of 1e-6 matters: scalars next to the units 1, -1, i, -i;
    couplings below a pruning tolerance)"""
    if hasattr(x, "item"):
        x = x.item()
    if isinstance(x, (bool, int)):
        return [int(x), 0] if abs(int(x)) < 64 else None
    if isinstance(x, complex):
        if abs(x.imag) > 1e-12:
            return None
        x = x.real
    if not isinstance(x, float) or x != x or abs(x) * 2 ** emax >= 2 ** 30:
        return None
    q = round(x * 2 ** emax)
    if abs(x * 2 ** emax - q) > tol:
        return None
    e = emax
    while e > 0 and q % 2 == 0:
        q //= 2
        e -= 1
    return [q, e]


INEXACT = [7, 20]      # sentinel: 7/2^20 is never a legitimate value (denominators stay <= 2^12)


def cdyadic(z):
    """complex -> [[re_num, e], [im_num, e]] or None"""
    if hasattr(z, "item"):
        z = z.item()
    z = complex(z)
    a, b = dyadic(z.real), dyadic(z.imag)
    if a is None or b is None:
        return None
    return [a, b]


def exc_name(e):
    return type(e).__name__
