"""Code -> spec direction with the repository's own tests as drivers: run the pinned test files under the
recorder plugin and hand the recorded calls to the trace specifications (thorough tier)."""
import json
import os
import shutil
import subprocess

from .tlc import VERIF, WORK

TESTS = ["pyclifford/tests", "torchclifford/tests/test_stabilizer.py", "torchclifford/tests/test_circuit.py",
         "torchclifford/tests/test_paulialg.py"]


def collect(tag, rounds=3):
    """returns {family: [records]}; the tests draw random inputs, so several rounds give different traces"""
    repo = os.environ.get("VERIF_REPO", "/repo")
    d = os.path.join(WORK, "suite_" + tag)
    shutil.rmtree(d, ignore_errors=True)
    os.makedirs(d)
    env = dict(os.environ, VERIF_REC_DIR=d, PYTHONPATH=VERIF + os.pathsep + os.environ.get("PYTHONPATH", ""), VERIF_REPO=repo)
    env.pop("VERIF_CHILD", None)
    for _ in range(rounds):
        subprocess.run(["/venv/bin/python", "-m", "pytest", "-q", "-p", "no:cacheprovider", "-p", "harness.recorder_plugin",
                        "--timeout=900"] + [t for t in TESTS if os.path.exists(os.path.join(repo, t))],
                       cwd=repo, env=env, stdout=subprocess.DEVNULL, stderr=subprocess.DEVNULL, timeout=1800)
    # ... and the documentation notebooks (doc/*.ipynb), cell by cell, under the same recorder
    doc = os.path.join(repo, "doc") if os.path.isdir(os.path.join(repo, "doc")) else "/repo/doc"
    nbs = [os.path.join(doc, f) for f in ("PauliAlgebra.ipynb", "Stabilizer.ipynb", "Circuit.ipynb", "SBRG.ipynb") if os.path.exists(os.path.join(doc, f))]
    if nbs:
        subprocess.run(["/venv/bin/python", "-m", "harness.nbrun"] + nbs, cwd=VERIF, env=env, stdout=subprocess.DEVNULL,
                       stderr=subprocess.DEVNULL, timeout=1800)
    out = {}
    for fam in ("c01", "clifford", "stab", "c14", "c19"):
        p = os.path.join(d, fam + ".ndjson")
        out[fam] = [json.loads(l) for l in open(p)] if os.path.exists(p) else []
    return out
