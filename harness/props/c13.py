"""C13  torchclifford computes the same results as pyclifford (port equivalence)."""
import json
import numpy
from ..core import Prop
from .. import enum, backend
from ..backend import dyadic, bits_wire, wire_bits
from .c02 import _exc, ins_to_state, mask_of
from .c03 import read_maps


def norm(v):
    """dtype-free normal form of a returned value"""
    if v is None:
        return "none"
    if isinstance(v, (list, tuple)):
        return [norm(x) for x in v]
    if hasattr(v, "tolist") and not isinstance(v, (int, float, complex)):
        return norm(v.tolist())
    if isinstance(v, bool):
        return int(v)
    if isinstance(v, int):
        return v
    if isinstance(v, (float, complex)):
        z = complex(v)
        a, b = dyadic(z.real), dyadic(z.imag)
        if a is None or b is None:
            return "inexact:%.6g%+.6gj" % (z.real, z.imag)
        a = a[0] if a[1] == 0 else a          # integral floats (torch float32 0./1./2.) are integers
        b = b[0] if b[1] == 0 else b
        return a if b == 0 else {"re": a, "im": b}
    if hasattr(v, "gs"):
        d = {"gs": norm(v.gs), "ps": norm(v.ps)}
        if hasattr(v, "cs"):
            d["cs"] = norm(v.cs)
        if hasattr(v, "r"):
            d["r"] = norm(v.r)
        return d
    if hasattr(v, "g"):
        return {"g": norm(v.g), "p": norm(v.p)}
    return repr(v)


def gs_of(ws):
    return [wire_bits(w)[0] for w in ws]


def ps_of(ws):
    return [w[-1] for w in ws]


class C13(Prop):
    id = "C13"
    trace_module = "TraceC13"
    trace_cfg = "TraceC13.cfg"
    backends = ("py",)          # the driver itself calls both packages
    chunk = 3000
    assumptions = [
        "shared surface = same-named kernels of utils.py plus the class methods listed in DESIGN.md 4/C13; functions present on one side only are outside the property",
        "values are normalised (dtype-free integers / exact dyadics / Pauli bits, ranks) and compared as canonical strings; float noise below 1e-5 relative to a 2^-12 grid is not a difference",
        "inputs are well-formed: valid maps and tableaux emitted by TLC (N<=2 complete group, N=3,4 simulated walks), Pauli lists, masks; coin-consuming kernels are fed the same outcomes (torch samples= argument / seeded numba coins replayed)",
    ]
    rule = "one record per (function, input) with both packages' normalised return values"

    def models(self):
        self.maps = {}
        for n in (1, 2):
            pf = "%s/maps_n%d.txt" % (self.wd, n)
            self.model("MC_Clifford", "MC_Clifford_maps_n%d.cfg" % n, name="maps_n%d" % n, print_file=pf,
                       expect_distinct=(24 if n == 1 else 11520))
            self.maps[n] = [m for m, _ in read_maps(pf)]
        self.big = []
        nb = 40 if self.tier == "thorough" else 10
        for n in (3, 4):
            r = self.model("MC_RotSim", "MC_RotSim_n%d.cfg" % n, name="rotsim_n%d" % n, workers=1, simulate="num=%d" % nb,
                           depth=8, seed=self.seed + 110 + n, collect=True)
            for e in r.printed:
                if e[0] == "S" and e[1] in (4, 8):
                    self.big.append((n, e[3]))

    def scenarios(self):
        thorough = self.tier == "thorough"
        rng = self.rng
        maps = [(1, m) for m in self.maps[1]] + [(2, m) for m in (self.maps[2] if thorough else rng.sample(self.maps[2], 400))] + list(self.big)
        for i, (n, m) in enumerate(maps):
            ops = [[rng.randrange(4) for _ in range(n)] + [rng.randrange(4)] for _ in range(6)]
            herm = [w[:-1] + [rng.choice((0, 2))] for w in ops]
            yield {"k": "map", "n": n, "m": m, "ops": ops, "herm": herm, "r": i % (n + 1), "seed": self.seed + i}
        for n in (1, 2, 3, 4):
            for t in range(40 if thorough else 10):
                ops = [[rng.randrange(4) for _ in range(n)] + [rng.randrange(4)] for _ in range(5)]
                yield {"k": "paulis", "n": n, "ops": ops, "c": [[rng.randrange(2) for _ in ops] for _ in range(4)]}
        # polynomials on wider registers whose strings share a long prefix / suffix (both packages must keep them apart)
        for n in (13, 28, 30, 40, 66):
            base = [3 if q == 0 else 0 for q in range(n)]
            ops = [base + [0]]
            for d in range(4):
                w = list(base)
                w[n - 1 - d] = 1 + d % 3
                ops.append(w + [d % 4])
            w = list(base)
            w[0] = 1
            ops.append(w + [0])
            yield {"k": "widepoly", "n": n, "ops": ops}
        for t in range(60 if thorough else 20):
            nr, nc = rng.randrange(1, 7), rng.randrange(1, 7)
            yield {"k": "z2", "mat": [[rng.randrange(2) for _ in range(nc)] for _ in range(nr)]}

    def describe(self, rec, clause):
        d = {"clause": clause, "op": rec.get("op"), "fn": rec.get("fn"), "py_exc": rec.get("py_exc"), "torch_exc": rec.get("torch_exc"),
             "mixed": rec.get("mixed")}
        return d

    def execute(self, scn, be):
        py, to = backend.get("py"), backend.get("torch")
        out = []

        def pair(fn, fpy, fto, **info):
            lenient = info.pop("lenient", False)
            rec = {"op": "pair", "fn": fn}
            rec.update(info)
            if "r" in info and "n" in scn:
                rec["mixed"] = info["r"] >= 1        # not pure at the start, so a standby pivot can compete with an active stabilizer
            for side, f in (("py", fpy), ("torch", fto)):
                try:
                    rec[side] = json.dumps(norm(f()), sort_keys=True, separators=(",", ":"))
                    rec[side + "_exc"] = "none"
                except Exception as e:
                    rec[side] = "exc"
                    rec[side + "_exc"] = _exc(e)
            if lenient and "exc" in (rec["py"], rec["torch"]):
                return           # inputs whose acceptance is not promised: compared only when both packages answer
            out.append(rec)

        def both(fn, f, **info):
            pair(fn, lambda: f(py), lambda: f(to), **info)

        k = scn["k"]
        if k == "widepoly":
            ops = scn["ops"]
            cs = [1, 0.5, -1, 2, 0.25j, 3]
            both("Polynomial.reduce(wide)", lambda B: B.poly(ops + ops[:2], cs + [1, 1]).reduce(), n=scn["n"])
            both("Polynomial.__add__(wide)", lambda B: B.poly(ops[:3], cs[:3]) + B.poly(ops[2:], cs[2:]), n=scn["n"])
            both("Polynomial.__sub__(wide)", lambda B: B.poly(ops[:4], cs[:4]) - B.poly(ops[3:], cs[3:]), n=scn["n"])
            return out
        if k == "paulis":
            ops, n = scn["ops"], scn["n"]
            a, b = ops[0], ops[1]
            both("acq", lambda B: B.utils.acq(B.pauli(a).g, B.pauli(b).g))
            both("ipow", lambda B: B.utils.ipow(B.pauli(a).g, B.pauli(b).g))
            both("ps0", lambda B: B.utils.ps0(B.plist(ops).gs))
            both("acq_mat", lambda B: B.utils.acq_mat(B.plist(ops).gs))
            both("batch_dot", lambda B: B.utils.batch_dot(B.plist(ops).gs, B.plist(ops).ps, B.cvec([1, 2, 0.5, -1, 1j]),
                                                           B.plist(ops[:2]).gs, B.plist(ops[:2]).ps, B.cvec([1, -0.5j])))
            both("pauli_tokenize", lambda B: B.utils.pauli_tokenize(B.plist(ops).gs, B.plist(ops).ps))
            both("pauli_combine", lambda B: B.utils.pauli_combine(B.imat(scn["c"]), B.plist(ops).gs, B.plist(ops).ps))
            g = [w for w in ops if any(w[:-1])]
            if g:
                gen = g[0][:-1] + [0]
                both("clifford_rotate", lambda B: B.utils.clifford_rotate(B.pauli(gen).g, 2, B.plist(ops).gs, B.plist(ops).ps))
                both("clifford_rotate_signless", lambda B: B.utils.clifford_rotate_signless(B.pauli(gen).g, B.plist(ops).gs))
                both("front", lambda B: B.utils.front(B.pauli(gen).g))
                both("condense", lambda B: B.utils.condense(B.pauli(gen).g))
                for i0 in range(n):
                    both("pauli_is_onsite", lambda B: bool(B.utils.pauli_is_onsite(B.pauli(gen).g, i0)), i0=i0)
                    both("pauli_diagonalize1", lambda B: [x for x in B.utils.pauli_diagonalize1(B.pauli(gen).g, i0)], i0=i0)
            both("mask", lambda B: B.utils.mask([0, n - 1], n))
            # from-the-end labels (numpy / torch indexing semantics): compared when both packages accept them
            both("mask", lambda B: B.utils.mask([-1], n), lenient=True, neg=1)
            both("mask", lambda B: B.utils.mask([0, -1] if n > 1 else [-1], n), lenient=True, neg=2)
            both("aggregate", lambda B: B.utils.aggregate(B.cvec([1, 2, 0.5, -1, 1j]), B.ivec([0, 1, 0, 2, 1]).long() if B.name == "torch" else B.ivec([0, 1, 0, 2, 1]), 3))
            # class level
            both("Pauli.__matmul__", lambda B: B.pauli(a) @ B.pauli(b))
            both("Pauli.repr", lambda B: repr(B.pauli(a)))
            both("pauli(str)", lambda B: B.paulialg.pauli("-i" + "".join("IXYZ"[l] for l in a[:-1])))
            both("PauliList.__getitem__", lambda B: B.plist(ops)[1:4])
            both("PauliList.weight", lambda B: B.plist(ops).weight())
            both("Polynomial.reduce", lambda B: (B.poly(ops + ops[:2], [1, 2, 0.5, -1, 1j, -1, 0.25])).reduce())
            both("Polynomial.reduce(tol=|c|)", lambda B: B.poly(ops[:4], [1, 2, 0.5, 3 + 4j]).reduce(1.0), tol=1)
            both("Polynomial.reduce(tol=|c|)", lambda B: B.poly(ops[:4], [1, 2, 0.5, 3 + 4j]).reduce(0.5), tol=0.5)
            # (|3+4i| = 5 is NOT used as a boundary: single precision computes that modulus as 5.0000005)
            both("Polynomial.reduce(tol=0)", lambda B: (B.poly(ops[:2], [1, 1]) @ B.poly(ops[:2], [1, -1])).reduce(0.0), tol=0)
            both("Polynomial.__matmul__", lambda B: B.poly(ops[:3], [1, 2, 0.5]) @ B.poly(ops[3:], [1j, -1]))
            both("Polynomial.__add__", lambda B: B.poly(ops[:3], [1, 2, 0.5]) + B.poly(ops[2:], [1j, -1, 4]))
            both("Polynomial.trace", lambda B: (B.poly(ops[:3] + [[0] * n + [2]], [1, 2, 0.5, 3])).trace())
        elif k == "z2":
            mat = scn["mat"]
            both("z2rank", lambda B: B.utils.z2rank(B.imat(mat)))
            both("binary_repr", lambda B: B.utils.binary_repr(numpy.arange(9) if B.name == "py" else B.torch.arange(9), 4))
        elif k == "map":
            n, m, ops, herm, r = scn["n"], scn["m"], scn["ops"], scn["herm"], scn["r"]
            rows = ins_to_state(m)
            mk = [1] if n > 1 else None
            both("pauli_transform", lambda B: B.utils.pauli_transform(B.plist(ops).gs, B.plist(ops).ps, B.cmap(m).gs, B.cmap(m).ps))
            both("map_to_state", lambda B: B.utils.map_to_state(B.cmap(m).gs, B.cmap(m).ps))
            both("state_to_map", lambda B: B.utils.state_to_map(B.cmap(rows).gs, B.cmap(rows).ps))
            both("z2inv", lambda B: B.utils.z2inv(numpy.array(gs_of(m))))
            both("CliffordMap.inverse", lambda B: B.cmap(m).inverse())
            both("CliffordMap.compose", lambda B: B.cmap(m).compose(B.cmap(m)))
            both("CliffordMap.to_state", lambda B: B.cmap(m).to_state(r))
            both("StabilizerState.to_map", lambda B: B.state(rows, r).to_map())
            both("PauliList.transform_by", lambda B: B.plist(ops).transform_by(B.cmap(m)))
            both("PauliList.rotate_by", lambda B: B.plist(ops).rotate_by(B.pauli(herm[0])))
            both("StabilizerState.rotate_by", lambda B: B.state(rows, r).rotate_by(B.pauli(herm[0])))
            both("StabilizerState.transform_by", lambda B: B.state(rows, r).transform_by(B.cmap(m)))
            both("clifford_rotation_map", lambda B: B.stabilizer.clifford_rotation_map(B.pauli(herm[0])))
            both("stabilizer_expect", lambda B: B.utils.stabilizer_expect(B.state(rows, r).gs, B.state(rows, r).ps, B.plist(herm).gs, B.plist(herm).ps, r), r=r)
            both("StabilizerState.expect(list)", lambda B: B.state(rows, r).expect(B.plist(herm)), r=r)
            both("StabilizerState.expect(poly)", lambda B: B.state(rows, r).expect(B.poly(ops, [1, 2, 0.5, -1, 1j, 3])), r=r)
            both("StabilizerState.expect(state)", lambda B: B.state(rows, 0).expect(B.state(ins_to_state(self.maps[n][scn["seed"] % len(self.maps[n])] if n <= 2 else m), r)), r=r)
            both("StabilizerState.get_prob", lambda B: B.state(rows, 0).get_prob(B.ivec([1] + [0] * (n - 1))))
            for reg in ([0], list(range(n))[: (n + 1) // 2], [n - 1]):
                both("StabilizerState.entropy", lambda B: B.state(rows, r).entropy(reg), r=r, reg=reg)
            for reg in ([-1], [0, -1][: n]):
                both("StabilizerState.entropy", lambda B: B.state(rows, r).entropy(reg), r=r, reg=reg, lenient=True)
            both("stabilizer_entropy", lambda B: B.utils.stabilizer_entropy(B.state(rows, r).gs[r:n], B.bvec([j % 2 == 0 for j in range(n)])), r=r)
            both("stabilizer_project", lambda B: B.utils.stabilizer_project(B.state(rows, r).gs, B.plist(herm[:3]).gs, r), r=r)
            both("stabilizer_projection_trace", lambda B: B.utils.stabilizer_projection_trace(B.state(rows, 0).gs, B.state(rows, 0).ps[:n] if B.name == "torch" else B.state(rows, 0).ps,
                                                                                                B.plist(herm[:3]).gs, B.plist(herm[:3]).ps, 0)[3], r=0)
            both("stabilizer_state()", lambda B: B.stabilizer.stabilizer_state(B.plist([w[:-1] + [w[-1] % 4 if w[-1] in (0, 2) else 0] for w in rows[:n]])))
            both("StabilizerState.density_matrix", lambda B: B.state(rows, r).density_matrix.reduce(), r=r)
            both("StabilizerState.copy", lambda B: B.state(rows, r).copy(), r=r)
            # measurement with identical coin outcomes: pyclifford under a seed, torch fed the same outcomes
            def meas_py():
                S = py.state(rows, r)
                py.seed(scn["seed"])
                o, l = S.measure(py.plist(herm[:2]))
                return [S, o, l]

            def meas_to():
                S = py.state(rows, r)
                py.seed(scn["seed"])
                o, _ = S.measure(py.plist(herm[:2]))
                T = to.state(rows, r)
                g, p, rr, out_, l = to.utils.stabilizer_measure(T.gs, T.ps, to.plist(herm[:2]).gs, to.plist(herm[:2]).ps, r, samples=to.torch.tensor(py.p_ints(o)))
                return [{"gs": norm(g), "ps": norm(p) + norm(T.ps)[len(norm(p)):], "r": rr}, out_, l]
            pair("stabilizer_measure", meas_py, meas_to, r=r)
            pair("StabilizerState.measure", lambda: (lambda S: [S.measure(py.plist(herm[:1]))[1], "ok"])(py.state(rows, 0)),
                 lambda: (lambda S: [S.measure(to.plist(herm[:1]))[1], "ok"])(to.state(rows, 0)), r=0)
            # circuits
            def circ(B):
                C = B.circuit
                if B.name == "py":
                    c = C.CliffordCircuit(n)
                else:
                    c = C.CliffordCircuit()
                    c.N = n
                g1 = C.CliffordGate(*range(n))
                g1.set_forward_map(B.cmap(m))
                c.take(g1)
                c.take(C.clifford_rotation_gate(B.pauli(herm[0])) if any(herm[0][:-1]) else g1.copy())
                g2 = C.CliffordGate(0)
                g2.set_backward_map(B.cmap([[3, 0], [1, 2]]))
                c.take(g2)
                return c
            both("CliffordCircuit.forward", lambda B: circ(B).forward(B.plist(ops)))
            both("CliffordCircuit.backward", lambda B: circ(B).backward(B.state(rows, r)))
            both("CliffordCircuit.compile.forward", lambda B: circ(B).compile().forward(B.plist(ops)))
            both("CliffordCircuit.compile.backward", lambda B: circ(B).compile().backward(B.plist(ops)))
            # call-order sequences (stale caches must be stale in the same way, or not at all, in both packages)
            hg = [w for w in herm if any(w[:-1])]
            if len(hg) >= 2:
                def recompile(B):
                    C = B.circuit
                    c = circ(B)
                    g = C.CliffordGate(*range(n))
                    g.set_generator(B.pauli(hg[0]))
                    c.take(g)
                    c.compile()
                    g.set_generator(B.pauli(hg[1]))
                    c.compile()
                    return c.forward(B.plist(ops))
                both("seq:compile,set_generator,compile,forward", recompile)

                def regate(B):
                    C = B.circuit
                    g = C.CliffordGate(*range(n))
                    g.set_generator(B.pauli(hg[0]))
                    g.compile()
                    x = g.forward(B.plist(ops))
                    g.set_generator(B.pauli(hg[1]))
                    g.compile()
                    return [x, g.backward(B.plist(ops)), g.forward(B.plist(ops))]
                both("seq:gate.compile,set_generator,compile", regate)

                def copycompile(B):
                    c = circ(B)
                    d = c.copy()
                    d.compile()
                    return [c.forward(B.plist(ops)), d.backward(B.plist(ops)), c.forward_map is None]
                both("seq:copy,compile", copycompile)
            both("diagonalize(state)", lambda B: B.circuit.diagonalize(B.state(rows, 0)).forward(B.state(rows, 0)))
        return out


PROP = C13
