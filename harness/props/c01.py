"""C01  Pauli multiplication is exact (strings, phases, commutation)."""
from ..core import Prop, log
from .. import tlc


def _exc(e):
    return type(e).__name__


class C01(Prop):
    id = "C01"
    trace_module = "TraceC01"
    trace_cfg = "TraceC01.cfg"
    suite_family = ('c01', ('mul',))
    backends = ("py", "torch")
    assumptions = [
        "letters/phase projection bits<->IXYZ (4-entry table in harness/backend.py)",
        "TLC evaluates PauliGroup!Mul by the one-qubit table grounded in GaussMat (N<=2 quick, N<=3 thorough)",
        "N>3 only sampled (TLC -simulate chains)",
    ]
    rule = ("records = calls of Pauli.__matmul__/utils.acq/utils.ipow per TLC Cayley-graph edge, whole-table "
            "acq_mat/batch_dot calls, and product chains from TLC -simulate; distinct = distinct record lines; "
            "non-trivial = every record (each is a different operand pair / table / chain)")

    def models(self):
        thorough = self.tier == "thorough"
        self.edges = {}
        for n in (1, 2, 3):
            cfg = "MC_C01_n%d.cfg" % n if (thorough or n < 3) else "MC_C01_n3q.cfg"
            r = self.model("MC_C01", cfg, name="cayley_n%d" % n, collect=True, expect_distinct=4 * 4 ** n)
            self.edges[n] = [e for e in r.printed if e and e[0] == "E"]
            if len(self.edges[n]) != 2 * (4 * 4 ** n) ** 2:
                raise tlc.MachineryError("C01: expected %d edges for N=%d, got %d" % (2 * (4 * 4 ** n) ** 2, n, len(self.edges[n])))
        self.chains = []
        nb = 400 if thorough else 40
        for n in (4, 5, 6, 8):
            r = self.model("MC_C01sim", "MC_C01sim_n%d.cfg" % n, name="chains_n%d" % n, workers=1,
                           simulate="num=%d" % nb, depth=30, seed=self.seed + n, collect=True)
            cur = None
            for e in r.printed:
                if e[0] != "S":
                    continue
                if e[1] == 1:
                    cur = {"k": "chain", "start": e[3], "steps": []}
                    self.chains.append(cur)
                cur["steps"].append({"side": e[2], "q": e[4], "exp": e[5]})

    def scenarios(self):
        thorough = self.tier == "thorough"
        for n in (1, 2, 3):
            pairs = {}
            for e in self.edges[n]:
                a, b = (e[2], e[3]) if e[1] == "R" else (e[3], e[2])
                pairs[(tuple(a), tuple(b))] = (e[4], e[5])
            keys = sorted(pairs)
            # py: every pair; torch: every pair for N<=2, sample for N=3 in quick
            for k in keys:
                yield {"k": "mul", "a": list(k[0]), "b": list(k[1]), "pkg": "py"}
            tk = keys
            if n == 3 and not thorough:
                tk = self.rng.sample(keys, 6000)
            for k in tk:
                yield {"k": "mul", "a": list(k[0]), "b": list(k[1]), "pkg": "torch"}
            allp = sorted({k[0] for k in keys})
            if n <= 2:
                yield {"k": "table", "as": [list(p) for p in allp], "bs": [list(p) for p in allp]}
            else:
                sub = self.rng.sample(allp, 256 if thorough else 48)
                yield {"k": "table", "as": [list(p) for p in sub], "bs": [list(p) for p in allp]}
                yield {"k": "table", "as": [list(p) for p in allp], "bs": [list(p) for p in sub]}
        for c in self.chains:
            yield c
        # wide registers (across the 64-bit word boundary): random dense and sparse operators, products and tables
        rng = self.rng
        for n in (63, 64, 65, 70, 130):
            ops = []
            for t in range(24):
                dense = t % 2 == 0
                w = [rng.randrange(4) if (dense or rng.random() < 0.08) else 0 for _ in range(n)] + [rng.randrange(4)]
                w[n - 1 - (t % 3)] = w[n - 1 - (t % 3)] or rng.randrange(1, 4)
                ops.append(w)
            for t in range(12):
                yield {"k": "mul", "a": ops[2 * t], "b": ops[2 * t + 1]}
            yield {"k": "table", "as": ops[:8], "bs": ops[8:20]}
            yield {"k": "table", "as": ops[:10], "bs": ops[:10], "pkg": "py"}
        # operands that share one string array: -P, i*P, -i*P are built by the library on P's own array
        for n in (1, 2, 3):
            keys3 = sorted({tuple(e[2]) for e in self.edges[n]})
            for j, a in enumerate(keys3 if n < 3 else keys3[::4]):
                for e_ in (1, 2, 3):
                    yield {"k": "mulshared", "a": list(a), "e": e_, "side": (j + e_) % 2}
        # large batched products with two different factors (L1 * L2 * N beyond 2^16 and 2^17 elements per temporary)
        for n, l1, l2 in ((4, 120, 150), (7, 100, 110), (4, 150, 120)):
            a_ = [[rng.randrange(4) for _ in range(n)] + [rng.randrange(4)] for _ in range(l1)]
            b_ = [[rng.randrange(4) for _ in range(n)] + [rng.randrange(4)] for _ in range(l2)]
            yield {"k": "table", "as": a_, "bs": b_}
        yield {"k": "hugeprod", "n": 6, "l1": 1500, "l2": 2000, "pick": 400, "seed": self.seed + 77}
        # element types of the user's arrays: bits as uint8 / int8 / int32 / uint64 / float64, phases likewise.  A refusal
        # (exception) is accepted; a product that is returned must be the product
        for n in (1, 2):
            keys2 = sorted({(tuple(e[2]), tuple(e[3])) for e in self.edges[n]})
            for j, (a, b) in enumerate(keys2 if n == 1 else keys2[::3]):
                for gdt, pdt in (("uint8", "int64"), ("int8", "int32"), ("uint64", "uint8"), ("float64", "int64"), ("uint8", "uint8"), ("int32", "float64"))[j % 2::2]:
                    yield {"k": "mul", "a": list(a), "b": list(b), "dt": [gdt, pdt], "pkg": "py"}
        # live operands: the same Pauli object is multiplied, changed in place (rotate_by), and multiplied again
        for t, c in enumerate(self.chains[:60]):
            yield {"k": "live", "start": c["start"], "steps": c["steps"][:10]}

    def execute(self, scn, be):
        k = scn["k"]
        if k == "mul":
            r = self._mul(scn, be)
            return [r] if r is not None else []
        if k == "hugeprod":
            import random as _r
            rr = _r.Random(scn["seed"])
            n, l1, l2 = scn["n"], scn["l1"], scn["l2"]
            As = [[rr.randrange(4) for _ in range(n)] + [rr.randrange(4)] for _ in range(l1)]
            Bs = [[rr.randrange(4) for _ in range(n)] + [rr.randrange(4)] for _ in range(l2)]
            out = []
            try:
                a, b = be.plist(As), be.plist(Bs)
                gs, ps, cs = be.utils.batch_dot(a.gs, a.ps, be.cvec([1] * l1), b.gs, b.ps, be.cvec([1] * l2))
                from ..backend import bits_wire
                for _ in range(scn["pick"]):
                    i, j = rr.randrange(l1), rr.randrange(l2)
                    k_ = i * l2 + j            # the documented layout: pair (i, j) at position i * L2 + j
                    out.append({"op": "mul", "a": As[i], "b": Bs[j], "huge": [i, j], "ret": bits_wire(be.tolist(gs[k_]), ps[k_])})
            except Exception as e:
                out.append({"op": "mul", "a": As[0], "b": Bs[0], "exc": _exc(e)})
            return out
        if k == "mulshared":
            a = scn["a"]
            b = a[:-1] + [(a[-1] + scn["e"]) % 4]
            rec = {"op": "mul", "shared": scn["e"]}
            try:
                A = be.pauli(a)
                B = (1j, -1, -1j)[scn["e"] - 1] * A            # same string array, other phase
                if be.p_pauli(B) != b:
                    return []                                    # (scaling is judged under C20)
                if scn["side"]:
                    rec["a"], rec["b"] = a, b
                    rec["ret"] = be.p_pauli(A @ B)
                else:
                    rec["a"], rec["b"] = b, a
                    rec["ret"] = be.p_pauli(B @ A)
            except Exception as e:
                rec["exc"] = _exc(e)
                rec.setdefault("a", a); rec.setdefault("b", b)
            return [rec]
        if k == "table":
            return self._table(scn, be)
        if k == "chain":
            return [self._chain(scn, be)]
        if k == "live":
            return self._live(scn, be)
        raise ValueError(k)

    def _mul(self, scn, be):
        rec = {"op": "mul", "a": scn["a"], "b": scn["b"]}
        try:
            A, B = be.pauli(scn["a"]), be.pauli(scn["b"])
            if scn.get("dt"):
                import numpy
                gdt, pdt = scn["dt"]
                rec["dt"] = scn["dt"]
                try:
                    A = be.paulialg.Pauli(A.g.astype(getattr(numpy, gdt)), getattr(numpy, pdt)(A.p))
                    B = be.paulialg.Pauli(B.g.astype(getattr(numpy, gdt)), getattr(numpy, pdt)(B.p))
                    rec["ret"] = be.p_pauli(A @ B)
                    rec["acq"] = be.p_ints([be.utils.acq(A.g, B.g)])[0]
                    rec["ipow"] = be.p_ints([be.utils.ipow(A.g, B.g)])[0] % 4
                except Exception:
                    return None            # refused: nothing to judge
                return rec
            if scn["a"] == scn["b"] and scn.get("same", True):
                B = A                      # squares are taken of one and the same object
            rec["ret"] = be.p_pauli(A @ B)
            v = be.p_ints([be.utils.acq(A.g, B.g)])[0]
            rec["acq"] = v
            rec["ipow"] = be.p_ints([be.utils.ipow(A.g, B.g)])[0]
        except Exception as e:
            rec["exc"] = _exc(e)
        return rec

    def _table(self, scn, be):
        out = []
        As, Bs = scn["as"], scn["bs"]
        n = len(As[0]) - 1
        # anticommutation tables
        calls = []
        if be.name == "py":
            if As == Bs:
                calls.append(("acq_mat", lambda: be.utils.acq_mat(be.plist(As).gs)))
        else:
            calls.append(("acq_grid", lambda: be.utils.acq_grid(be.plist(As).gs, be.plist(Bs).gs)))
            if As == Bs:
                calls.append(("acq_mat", lambda: be.utils.acq_mat(be.plist(As).gs)))
        for fn, call in calls:
            rec = {"op": "acqmat", "fn": fn, "as": As, "bs": Bs}
            try:
                m = call()
                rec["mat"] = [be.p_ints(row) for row in m]
            except Exception as e:
                rec["exc"] = _exc(e)
            out.append(rec)
        # all pairwise products
        calls = [("batch_dot", lambda: self._bd(be, As, Bs)), ("poly_matmul", lambda: self._pm(be, As, Bs))]
        if be.name == "torch":
            calls.append(("ipow_product", lambda: self._ip(be, As, Bs)))
        for fn, call in calls:
            rec = {"op": "batch", "fn": fn, "as": As, "bs": Bs}
            try:
                rets, csok = call()
                rec["rets"] = rets
                if csok is not None:
                    rec["csok"] = csok
            except Exception as e:
                rec["exc"] = _exc(e)
            out.append(rec)
        return out

    def _bd(self, be, As, Bs):
        a, b = be.plist(As), be.plist(Bs)
        gs, ps, cs = be.utils.batch_dot(a.gs, a.ps, be.cvec([1] * len(As)), b.gs, b.ps, be.cvec([1] * len(Bs)))
        return be.p_rows(gs, ps), all(complex(c) == 1 for c in be.tolist(cs))

    def _pm(self, be, As, Bs):
        a, b = be.poly(As, [1] * len(As)), be.poly(Bs, [1] * len(Bs))
        r = a @ b
        return be.p_list(r), all(complex(c) == 1 for c in be.tolist(r.cs))

    def _ip(self, be, As, Bs):
        # torch-only helper: phases of all pairwise products of phase-free strings
        a, b = be.plist(As), be.plist(Bs)
        ip = be.p_ints(be.utils.ipow_product(a.gs, b.gs))
        gs = ((a.gs.unsqueeze(1) + b.gs.unsqueeze(0)) % 2).view(-1, a.gs.shape[1])
        L2 = len(Bs)
        ps = [(As[i // L2][-1] + Bs[i % L2][-1] + ip[i]) for i in range(len(ip))]
        return be.p_rows(gs, ps), None

    def _chain(self, scn, be):
        rec = {"op": "chain", "start": scn["start"], "steps": []}
        try:
            acc = be.pauli(scn["start"])
            for st in scn["steps"]:
                q = be.pauli(st["q"])
                acc = (acc @ q) if st["side"] == "R" else (q @ acc)
                rec["steps"].append({"side": st["side"], "q": st["q"], "ret": be.p_pauli(acc)})
        except Exception as e:
            rec["exc"] = _exc(e)
        return rec


def _live(self, scn, be):
    out = []
    try:
        P = be.pauli(scn["steps"][0]["q"])
        for j, st in enumerate(scn["steps"]):
            q = st["q"]
            herm = q[:-1] + [q[-1] - q[-1] % 2]
            if j % 3 == 2 and any(herm[:-1]):
                P.rotate_by(be.pauli(herm))        # in-place change of the live operand (judged under C02)
                continue
            a = be.p_pauli(P)
            rec = {"op": "batch", "fn": "live:Pauli@poly" if j % 2 else "live:poly@Pauli", "as": [a] if j % 2 else [q, q], "bs": [q, q] if j % 2 else [a]}
            Q = be.poly([q, q], [1, 1])
            r = (P @ Q) if j % 2 else (Q @ P)
            rec["rets"] = be.p_list(r)
            rec["csok"] = all(complex(c) == 1 for c in be.tolist(r.cs))
            out.append(rec)
            out.append({"op": "mul", "a": a, "b": q, "ret": be.p_pauli(P @ be.pauli(q))})
    except Exception as e:
        out.append({"op": "batch", "fn": "live", "exc": _exc(e)})
    return out


C01._live = _live
PROP = C01
