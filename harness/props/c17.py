"""C17  copy is faithful and independent; queries have no side effects."""
import numpy
from ..core import Prop
from .. import tlc, enum
from .c02 import _exc, mask_of, ins_to_state

N = 2
# gates, layers and circuits derive missing forward/backward maps lazily, also inside queries such as povm()
LAZY = ("CliffordGate", "CliffordLayer", "CliffordCircuit", "Circuit", "MeasuringCircuit")
ROWS = [[3, 2, 2], [1, 1, 0], [1, 3, 0], [0, 3, 2]]          # a signed valid N=2 tableau (map order: see MAPW)
MAPW = [[1, 1, 2], [3, 0, 0], [0, 1, 0], [3, 3, 2]]          # a valid signed N=2 map: CNOT with two signs flipped
MAP1 = [[2, 0], [3, 0]]                                      # one-qubit map X->Y, Z->Z


def is_buf(x):
    return isinstance(x, numpy.ndarray) or (hasattr(x, "data_ptr") and hasattr(x, "dim"))


def num(v):
    if hasattr(v, "item"):
        v = v.item()
    if isinstance(v, bool):
        return v
    if isinstance(v, int):
        return v if abs(v) < 2 ** 30 else repr(v)
    if isinstance(v, float) and v == int(v) and abs(v) < 2 ** 30:
        return int(v)
    return repr(v)


def arr(a):
    if hasattr(a, "detach"):
        a = a.detach()
    if hasattr(a, "tolist"):
        a = a.tolist()
    if isinstance(a, (list, tuple)):
        return [arr(x) for x in a]
    return num(a)


def val(o, seen=None):
    """opaque projection of a whole object (bitwise content of every array, scalars, structure)"""
    if o is None:
        return "none"
    if is_buf(o):
        return {"arr": arr(o)}
    if isinstance(o, (bool, int, float, complex)) or hasattr(o, "item") and not hasattr(o, "gates"):
        return num(o)
    if isinstance(o, str):
        return o
    if isinstance(o, (list, tuple)):
        return [val(x) for x in o]
    name = type(o).__name__
    d = {"type": name}
    if name in ("CliffordLayer",):
        d["gates"] = [val(g) for g in o.gates]
        d["forward_map"], d["backward_map"] = val(o.forward_map), val(o.backward_map)
        return d
    if name in ("CliffordCircuit", "Circuit"):
        d["N"] = num(o.N)
        d["layers"] = [val(l) for l in o.layers_forward()]
        d["forward_map"], d["backward_map"] = val(o.forward_map), val(o.backward_map)
        if name == "Circuit":
            d["measure_result"] = arr(o.measure_result)
            d["log2prob"] = num(o.log2prob)
            d["unitary"] = bool(o.unitary)
        return d
    if name == "MeasureLayer":
        d["qubits"] = arr(o.qubits)
        d["result"] = val(o.result) if o.result is not None else "none"
        d["log2prob"] = num(o.log2prob) if o.log2prob is not None else "none"
        return d
    for f in ("g", "p", "c", "gs", "ps", "cs", "r", "qubits", "generator", "forward_map", "backward_map"):
        if hasattr(o, f) and not isinstance(getattr(type(o), f, None), property):
            d[f] = val(getattr(o, f))
    return d


def buffers(o, acc=None, depth=0):
    acc = [] if acc is None else acc
    if o is None or depth > 6:
        return acc
    if is_buf(o):
        acc.append(o)
    elif isinstance(o, (list, tuple)):
        for x in o:
            buffers(x, acc, depth + 1)
    elif hasattr(o, "__dict__"):
        if hasattr(o, "layers_forward"):
            for l in o.layers_forward():
                buffers(l, acc, depth + 1)
            for f in ("forward_map", "backward_map"):
                buffers(getattr(o, f, None), acc, depth + 1)
        else:
            for k, v in vars(o).items():
                if k in ("prev_layer", "next_layer"):
                    continue
                buffers(v, acc, depth + 1)
    return acc


def shares(a, b):
    for x in buffers(a):
        for y in buffers(b):
            if isinstance(x, numpy.ndarray) and isinstance(y, numpy.ndarray):
                if x.size and y.size and numpy.shares_memory(x, y):
                    return True
            elif hasattr(x, "data_ptr") and hasattr(y, "data_ptr"):
                # same underlying storage (a slice such as state[r:N] starts at another address than its parent)
                if x.numel() and y.numel() and x.untyped_storage().data_ptr() == y.untyped_storage().data_ptr():
                    return True
    return False


def poke(o):
    import contextlib
    try:
        import torch
        ctx = torch.no_grad()
    except Exception:
        ctx = contextlib.nullcontext()
    with ctx:
        return _poke(o)


def _poke(o):
    n = 0
    for b in buffers(o):
        if isinstance(b, numpy.ndarray):
            if b.size == 0 or not b.flags.writeable:
                continue
            idx = (0,) * b.ndim
            b[idx] = (b[idx] + 1) % 2 if b.dtype.kind in "iub" and b.ndim == 2 else b[idx] + 1
            n += 1
        else:
            if b.numel() == 0:
                continue
            idx = (0,) * b.dim()
            b[idx] = b[idx] + 1
            n += 1
    return n


class Kinds(object):
    """builders and method tables per object kind"""

    def __init__(self, be):
        self.be = be
        self.n3pool = None
        P, St, C = be.paulialg, be.stabilizer, be.circuit
        self.P, self.St, self.C = P, St, C
        be_ = be
        aux = self.aux
        py = be.name == "py"
        q, ip, am = "query", "inplace", "argmut"
        m = {}
        m["Pauli"] = [
            ("repr", q, lambda o, a, x: repr(o)), ("N", q, lambda o, a, x: o.N), ("weight", q, lambda o, a, x: o.weight()),
            ("trace", q, lambda o, a, x: o.trace()), ("tokenize", q, lambda o, a, x: o.tokenize()), ("to_qutip", q, lambda o, a, x: o.to_qutip()),
            ("as_list", q, lambda o, a, x: o.as_list()), ("as_polynomial", q, lambda o, a, x: o.as_polynomial()),
            ("neg", q, lambda o, a, x: -o), ("rmul_i", q, lambda o, a, x: 1j * o), ("rmul_2", q, lambda o, a, x: 2.0 * o),
            ("div", q, lambda o, a, x: o / 2), ("add", q, lambda o, a, x: o + a), ("sub", q, lambda o, a, x: o - a),
            ("matmul", q, lambda o, a, x: o @ a), ("copy", q, lambda o, a, x: o.copy()), ("pauli()", q, lambda o, a, x: P.pauli(o)),
            ("expect_by_state", q, lambda o, a, x: x["state"].expect(o)),
            ("diagonalize", q, lambda o, a, x: C.diagonalize(o, 0)), ("diagonalize_1", q, lambda o, a, x: C.diagonalize(o, 1)),
            ("diagonalize_causal", q, lambda o, a, x: C.diagonalize(o, 1, causal=True)),
            ("rotate_by", ip, lambda o, a, x: o.rotate_by(x["gen"])), ("rotate_by_mask", ip, lambda o, a, x: o.rotate_by(x["gen1"], mask_of(be_, [2], N))),
            ("transform_by", ip, lambda o, a, x: o.transform_by(x["map"])), ("transform_by_mask", ip, lambda o, a, x: o.transform_by(x["map1"], mask_of(be_, [1], N))),
        ]
        m["PauliList"] = [
            ("repr", q, lambda o, a, x: repr(o)), ("len", q, lambda o, a, x: len(o)), ("L", q, lambda o, a, x: o.L), ("N", q, lambda o, a, x: o.N),
            ("getitem_int", q, lambda o, a, x: o[0]), ("getitem_slice", q, lambda o, a, x: o[0:1]), ("neg", q, lambda o, a, x: -o),
            ("rmul_i", q, lambda o, a, x: 1j * o), ("trace", q, lambda o, a, x: o.trace()), ("weight", q, lambda o, a, x: o.weight()),
            ("copy", q, lambda o, a, x: o.copy()), ("as_polynomial", q, lambda o, a, x: o.as_polynomial()), ("tokenize", q, lambda o, a, x: o.tokenize()),
            ("to_qutip", q, lambda o, a, x: o.to_qutip()), ("paulis()", q, lambda o, a, x: P.paulis(o)),
            ("expect_by_state", q, lambda o, a, x: x["state"].expect(o)),
            ("stabilizer_state()", q, lambda o, a, x: St.stabilizer_state(x["commuting"])),
            ("rotate_by", ip, lambda o, a, x: o.rotate_by(x["gen"])), ("rotate_by_mask", ip, lambda o, a, x: o.rotate_by(x["gen1"], mask_of(be_, [1], N))),
            ("transform_by", ip, lambda o, a, x: o.transform_by(x["map"])), ("transform_by_mask", ip, lambda o, a, x: o.transform_by(x["map1"], mask_of(be_, [2], N))),
        ]
        m["PauliPolynomial"] = [
            ("repr", q, lambda o, a, x: repr(o)), ("getitem_int", q, lambda o, a, x: o[0]), ("neg", q, lambda o, a, x: -o),
            ("rmul", q, lambda o, a, x: 0.5 * o), ("div", q, lambda o, a, x: o / 2), ("add", q, lambda o, a, x: o + a), ("sub", q, lambda o, a, x: o - a),
            ("matmul", q, lambda o, a, x: o @ a), ("trace", q, lambda o, a, x: o.trace()), ("copy", q, lambda o, a, x: o.copy()),
            ("reduce", q, lambda o, a, x: o.reduce()), ("to_qutip", q, lambda o, a, x: o.to_qutip()), ("expect_by_state", q, lambda o, a, x: x["state"].expect(o)),
            ("rotate_by", ip, lambda o, a, x: o.rotate_by(x["gen"])), ("transform_by", ip, lambda o, a, x: o.transform_by(x["map"])),
            ("set_cs", ip, lambda o, a, x: o.set_cs(o.cs * 2)),
        ]
        if py:
            m["Pauli"].append(("add_num", q, lambda o, a, x: o + 2))
            m["PauliPolynomial"] += [("diagonalize_term", q, lambda o, a, x: C.diagonalize(o[0], 0)), ("diagonalize_term_1", q, lambda o, a, x: C.diagonalize(o[len(o) - 1], 1)),
                                     ("add_num", q, lambda o, a, x: o + 1.5), ("radd_num", q, lambda o, a, x: 1.5 + o), ("add_list", q, lambda o, a, x: o + x["list"]),
                                     ("SBRG", q, lambda o, a, x: C.SBRG(o))]
            m["PauliMonomial"] = [
                ("repr", q, lambda o, a, x: repr(o)), ("neg", q, lambda o, a, x: -o), ("rmul", q, lambda o, a, x: (1 + 2j) * o), ("div", q, lambda o, a, x: o / 4),
                ("add", q, lambda o, a, x: o + a), ("sub", q, lambda o, a, x: o - a), ("matmul", q, lambda o, a, x: o @ a), ("trace", q, lambda o, a, x: o.trace()),
                ("copy", q, lambda o, a, x: o.copy()), ("as_polynomial", q, lambda o, a, x: o.as_polynomial()), ("inverse", q, lambda o, a, x: o.inverse()),
                ("to_qutip", q, lambda o, a, x: o.to_qutip()), ("expect_by_state", q, lambda o, a, x: x["state"].expect(o)),
                ("diagonalize", q, lambda o, a, x: C.diagonalize(o, 0)), ("diagonalize_1", q, lambda o, a, x: C.diagonalize(o, 1)),
                ("rotate_by", ip, lambda o, a, x: o.rotate_by(x["gen"])), ("set_c", ip, lambda o, a, x: o.set_c(3.0)),
            ]
        m["CliffordMap"] = [
            ("repr", q, lambda o, a, x: repr(o)), ("copy", q, lambda o, a, x: o.copy()), ("compose", q, lambda o, a, x: o.compose(a)),
            ("inverse", q, lambda o, a, x: o.inverse()), ("to_state", q, lambda o, a, x: o.to_state()), ("to_state_r", q, lambda o, a, x: o.to_state(1)),
            ("used_by_transform", q, lambda o, a, x: x["list"].copy().transform_by(o)),
            ("rotate_by", ip, lambda o, a, x: o.rotate_by(x["gen"])), ("transform_by", ip, lambda o, a, x: o.transform_by(a)),
            ("embed", ip, lambda o, a, x: o.embed(x["map1"], mask_of(be_, [2], N))),
        ]
        m["StabilizerState"] = [
            ("repr", q, lambda o, a, x: repr(o)), ("stabilizers", q, lambda o, a, x: o.stabilizers), ("copy", q, lambda o, a, x: o.copy()),
            ("to_map", q, lambda o, a, x: o.to_map()), ("expect_list", q, lambda o, a, x: o.expect(x["list"])), ("expect_pauli", q, lambda o, a, x: o.expect(x["gen"])),
            ("expect_poly", q, lambda o, a, x: o.expect(x["poly"])), ("expect_state", q, lambda o, a, x: o.expect(a)),
            ("entropy", q, lambda o, a, x: o.entropy([0])), ("entropy_mask", q, lambda o, a, x: o.entropy(numpy.array([True, False]))),
            ("entropy_arr", q, lambda o, a, x: o.entropy(x["region"])), ("entropy_arr_neg", q, lambda o, a, x: o.entropy(x["region_neg"])),
            ("entropy_list_arg", q, lambda o, a, x: o.entropy(x["region_list"])), ("get_prob_arg", q, lambda o, a, x: o.get_prob(x["readout"])),
            ("sample", q, lambda o, a, x: o.sample(3)), ("get_prob", q, lambda o, a, x: o.get_prob(be_.ivec([0, 1]))),
            ("density_matrix", q, lambda o, a, x: o.density_matrix), ("to_qutip", q, lambda o, a, x: o.to_qutip()), ("tokenize", q, lambda o, a, x: o.tokenize()),
            ("neg", q, lambda o, a, x: -o), ("rmul", q, lambda o, a, x: 2 * o), ("matmul", q, lambda o, a, x: o @ x["gen"]),
            ("rotate_by", ip, lambda o, a, x: o.rotate_by(x["gen"])), ("transform_by", ip, lambda o, a, x: o.transform_by(x["map"])),
            ("transform_by_mask", ip, lambda o, a, x: o.transform_by(x["map1"], mask_of(be_, [1], N))),
            ("set_r", ip, lambda o, a, x: o.set_r(1)),
        ]
        if py:   # torchclifford's measure() cannot run at all (TorchScript signature error; recorded under C13)
            m["StabilizerState"] += [("measure_list", ip, lambda o, a, x: o.measure(x["list"])), ("measure_state", ip, lambda o, a, x: o.measure(a))]
            m["PauliList"].append(("measured_by_copy", q, lambda o, a, x: x["state"].copy().measure(o)))
        if py:
            m["StabilizerState"] += [("postselect", ip, lambda o, a, x: o.postselect(x["gen"], 1)), ("diagonalize", q, lambda o, a, x: C.diagonalize(o)),
                                     ("shadow_snapshots", q, lambda o, a, x: list(be_.device.ClassicalShadow(o, C.onsite_rcc(N)).snapshots(2)))]
        m["CliffordGate"] = [
            ("repr", q, lambda o, a, x: repr(o)), ("copy", q, lambda o, a, x: o.copy()), ("independent_from", q, lambda o, a, x: o.independent_from(a)),
            ("forward_list", am, lambda o, a, x: o.forward(x["list"]), "list"), ("backward_list", am, lambda o, a, x: o.backward(x["list"]), "list"),
            ("forward_state", am, lambda o, a, x: o.forward(x["state"]), "state"), ("backward_state", am, lambda o, a, x: o.backward(x["state"]), "state"),
            ("forward_map", am, lambda o, a, x: o.forward(x["map"]), "map"),
            ("compile", ip, lambda o, a, x: o.compile()),
        ]
        m["CliffordLayer"] = [
            ("repr", q, lambda o, a, x: repr(o)), ("copy", q, lambda o, a, x: o.copy()),
            ("forward_list", am, lambda o, a, x: o.forward(x["list"]), "list"), ("backward_state", am, lambda o, a, x: o.backward(x["state"]), "state"),
            ("compile", ip, lambda o, a, x: o.compile(N)),
        ]
        m["CliffordCircuit"] = [
            ("repr", q, lambda o, a, x: repr(o)), ("copy", q, lambda o, a, x: o.copy()), ("layers", q, lambda o, a, x: list(o.layers_forward())),
            ("povm", q, lambda o, a, x: list(o.povm(2))),
            ("forward_list", am, lambda o, a, x: o.forward(x["list"]), "list"), ("backward_list", am, lambda o, a, x: o.backward(x["list"]), "list"),
            ("forward_state", am, lambda o, a, x: o.forward(x["state"]), "state"), ("backward_state", am, lambda o, a, x: o.backward(x["state"]), "state"),
            ("forward_poly", am, lambda o, a, x: o.forward(x["poly"]), "poly"),
            ("take", ip, lambda o, a, x: o.take(x["gate"])), ("compile", ip, lambda o, a, x: o.compile()), ("compose", ip, lambda o, a, x: o.compose(a)),
        ]
        if py:
            m["Circuit"] = [
                ("repr", q, lambda o, a, x: repr(o)), ("layers", q, lambda o, a, x: list(o.layers_forward())),
                ("forward_list", am, lambda o, a, x: o.forward(x["list"]), "list"), ("backward_list", am, lambda o, a, x: o.backward(x["list"]), "list"),
                ("take", ip, lambda o, a, x: o.take(x["gate"])), ("measure", ip, lambda o, a, x: o.measure(0)), ("compile", ip, lambda o, a, x: o.compile()),
            ]
            m["MeasuringCircuit"] = [
                ("forward_state", am, lambda o, a, x: o.forward(x["state"]), "state"),
            ]
        self.methods = m

    def aux(self, variant=0):
        be = self.be
        pool = getattr(self, "pool", None)
        x = {"gen": be.pauli([1, 2, 2]), "gen1": be.pauli([3, 0]), "map": be.cmap(MAPW), "map1": be.cmap(MAP1),
             "list": be.plist([[1, 3, 1], [2, 2, 0], [0, 3, 2]]), "commuting": be.plist([[3, 3, 2], [1, 1, 0]]),
             "state": be.state(ins_to_state(MAPW), 0), "poly": be.poly([[1, 1, 1], [3, 0, 2]], [0.5, 2 - 1j]),
             # plain arrays / lists handed to queries (labels from the end included: the caller's array must stay as it is)
             "region": numpy.array([1, 0]), "region_neg": numpy.array([0, -1]), "region_list": [1, -2], "readout": be.ivec([0, 1])}
        if pool and variant >= 3:
            m = pool[(variant * 15485863 + 5) % len(pool)]
            x["state"] = be.state(ins_to_state(m), 0)
            x["map"] = be.cmap(pool[(variant * 32452843 + 11) % len(pool)])
            x["list"] = be.plist([m[1][:-1] + [1], m[2], m[0][:-1] + [2]])
        if be.name == "py":
            x["gate"] = self.C.H(1)
        else:
            g = self.C.CliffordGate(1)
            g.set_forward_map(be.cmap([[3, 0], [1, 0]]))
            x["gate"] = g
        return x

    def new(self, kind, variant=0):
        be, C = self.be, self.C
        v = variant % 3
        pool = getattr(self, "pool", None)
        if pool and variant >= 3 and kind in ("Pauli", "PauliList", "PauliPolynomial", "CliffordMap", "StabilizerState"):
            m = pool[(variant * 7919 + 13) % len(pool)]
            m2 = pool[(variant * 104729 + 7) % len(pool)]
            ph = lambda w, j: w[:-1] + [(w[-1] + j + variant) % 4]
            if kind == "Pauli":
                return be.pauli(ph(m[variant % 4], 1))
            if kind == "PauliList":
                return be.plist([ph(m[0], 0), ph(m2[1], 1), ph(m[3], 3)])
            if kind == "PauliPolynomial":
                return be.poly([ph(m[0], 0), ph(m2[1], 1), ph(m[3], 3)], [0.5 + variant % 3, 1 - 2j, 0.25j])
            if kind == "CliffordMap":
                return be.cmap(m)
            return be.state(ins_to_state(m), (0, 0, 0, 1, 2)[variant % 5])
        if kind == "Pauli":
            return be.pauli([[1, 3, 1], [2, 0, 2], [0, 0, 3]][v])
        if kind == "PauliList":
            return be.plist([[[1, 3, 1], [0, 2, 2]], [[3, 3, 0], [1, 0, 3]], [[2, 1, 2], [2, 2, 1]]][v])
        if kind == "PauliMonomial":
            p = be.pauli([[1, 3, 1], [2, 0, 2], [0, 0, 3]][v])
            return self.P.PauliMonomial(p.g, p.p).set_c((0.5 - 1j, 2.0, -0.25j)[v])
        if kind == "PauliPolynomial":
            return be.poly([[1, 3, 1], [0, 2, 2], [1, 3, 3]], [(0.5, 2 - 1j, 1.0), (1.0, 1.0, -1.0), (0.25j, 3.0, 1.0)][v])
        if kind == "CliffordMap":
            return be.cmap([MAPW, enum.idmap(2), [[1, 0, 2], [3, 0, 0], [0, 3, 0], [0, 1, 2]]][v])
        if kind == "StabilizerState":
            return be.state(ins_to_state([MAPW, enum.idmap(2), MAPW][v]), (0, 0, 1)[v])
        if kind == "CliffordGate":
            g = C.CliffordGate(0, 1) if v != 1 else C.CliffordGate(1)
            if v == 0:
                g.set_generator(be.pauli([1, 2, 2]))
            elif v == 1:
                g.set_backward_map(be.cmap(MAP1))
            else:
                g.set_forward_map(be.cmap(MAPW))
            return g
        if kind == "CliffordLayer":
            return C.CliffordLayer(self.new("CliffordGate", 1), self._g0())
        if kind in ("CliffordCircuit", "Circuit", "MeasuringCircuit"):
            if kind == "CliffordCircuit":
                if be.name == "torch":
                    c = C.CliffordCircuit()
                    c.N = N
                else:
                    c = C.CliffordCircuit(N)
            else:
                c = C.Circuit(N)
            if variant == -1:
                return c                 # a circuit that has not taken any gate yet
            c.take(self.new("CliffordGate", v))
            c.take(self._g0())
            c.take(self.new("CliffordGate", (v + 1) % 3))
            if kind == "MeasuringCircuit":
                c.measure(1)
                c.take(self._g0())
            if v == 2 and kind != "MeasuringCircuit":
                c.compile()
            return c
        raise ValueError(kind)

    def _g0(self):
        g = self.C.CliffordGate(0)
        g.set_forward_map(self.be.cmap([[3, 0], [1, 0]]))
        return g


class C17(Prop):
    id = "C17"
    trace_module = "TraceC17"
    trace_cfg = "TraceC17.cfg"
    backends = ("py", "torch")
    chunk = 300
    assumptions = [
        "values are whole-object projections (every array bitwise, scalars via repr, layer/gate structure); comparison is TLC record equality",
        "method classification (query / in place on receiver / in place on argument) is the table in DESIGN.md 4/C17, taken from the property text",
        "for calls that mutate their argument, receiver fields that were unset before the call (lazily derived maps, recorded measurement results) are masked",
        "sharing is observed with numpy.shares_memory / tensor.data_ptr from outside; documented views (lst[i], stabilizers, -P, 1*P) are allowed to share, copy() is not",
        "histories over three slots are generated exhaustively by TLC (Heap.tla, length 5) and sampled by VERIF_SEED",
    ]
    rule = "one record per (kind, method) call with whole-heap snapshots before/after, per copy() with poke tests, per TLC history"

    def models(self):
        pf = "%s/hist.txt" % self.wd
        self.model("Heap", "MC_Heap.cfg", name="heap_histories", print_file=pf)
        from .c03 import read_maps
        pf2 = "%s/maps_n2.txt" % self.wd
        self.model("MC_Clifford", "MC_Clifford_maps_n2.cfg", name="maps_n2", print_file=pf2, expect_distinct=11520)
        self.pool = [m for m, _ in read_maps(pf2)]
        r3 = self.model("MC_RotSim", "MC_RotSim_n3.cfg", name="rotsim_n3", workers=1, simulate="num=8", depth=9, seed=self.seed + 130, collect=True)
        self.pool3 = [e[3] for e in r3.printed if e[0] == "S" and e[1] % 3 == 0]
        self.hists = []
        with open(pf) as f:
            for line in f:
                e = tlc.parse_tla_value(line)
                if e[0] == "H":
                    self.hists.append(e[1])

    def scenarios(self):
        thorough = self.tier == "thorough"
        kinds = ["Pauli", "PauliList", "PauliMonomial", "PauliPolynomial", "CliffordMap", "StabilizerState", "CliffordGate",
                 "CliffordLayer", "CliffordCircuit", "Circuit", "MeasuringCircuit"]
        # three-qubit states (all ranks) for the query methods whose kernels have N>=3-only paths (entropy, expect, sample ...)
        for v in range(60 if thorough else 24):
            yield {"k": "methods3", "v": v}
        nv = 120 if thorough else 30
        for kind in kinds:
            for v in range(3 + (nv if kind in ("Pauli", "PauliList", "PauliPolynomial", "CliffordMap", "StabilizerState") else 0)):
                yield {"k": "methods", "kind": kind, "v": v + self.seed * 1000 if v >= 3 else v}
                if kind != "MeasuringCircuit":
                    yield {"k": "copy", "kind": kind, "v": v}
                    if v < 6:
                        yield {"k": "copy", "kind": kind, "v": v, "how": ("deepcopy", "pickle")[v % 2]}
                    if kind == "PauliPolynomial" and v < 4:
                        yield {"k": "copy", "kind": kind, "v": v, "grad": True, "pkg": "torch"}
        # queries are functions of the receiver's current value: asked again after the first answer was scribbled
        # on, and asked after an in-place change, they answer like a freshly built object does
        for kind in kinds:
            for v in range(6 if thorough else 2):
                yield {"k": "pure", "kind": kind, "v": v + (self.seed * 1000 if v >= 3 else 0)}
        # module-level constructors are functions of their arguments: asked again after the caller changed, in place, the
        # object it was given the first time, they build the same object as before
        for v in range(4 if thorough else 2):
            yield {"k": "factory", "v": v}
        # after a call that took another object as its argument, receiver and argument go their own ways: each is then
        # changed through its public in-place methods and the other one is re-observed
        for kind in kinds:
            for v in range(4 if thorough else 2):
                yield {"k": "after", "kind": kind, "v": v}
        hs = self.rng.sample(self.hists, 3000 if thorough else 500)
        hk = ["Pauli", "PauliList", "PauliPolynomial", "CliffordMap", "StabilizerState", "CliffordGate", "CliffordCircuit"]
        for i, h in enumerate(hs):
            yield {"k": "hist", "kind": hk[i % len(hk)], "steps": h, "salt": i}

    def execute(self, scn, be):
        K = getattr(self, "_k_" + be.name, None)
        if K is None:
            K = Kinds(be)
            K.pool = self.pool
            setattr(self, "_k_" + be.name, K)
        if scn["k"] == "methods3":
            return self._methods3(scn, be, K)
        if scn["k"] == "factory":
            return self._factory(scn, be, K)
        kind = scn["kind"]
        if kind not in K.methods and kind != "MeasuringCircuit":
            return []
        if kind == "MeasuringCircuit" and be.name != "py":
            return []
        if scn["k"] == "methods3":
            return self._methods3(scn, be, K)
        if scn["k"] == "methods":
            out = []
            for ent in K.methods[kind]:
                name, cls, fn = ent[0], ent[1], ent[2]
                rec = {"op": "call", "kind": kind, "meth": name, "cls": cls, "recv": "o"}
                try:
                    o, a, x = K.new(kind, scn["v"]), K.new(kind, scn["v"] + 1), K.aux(scn["v"])
                    heap = {"o": o, "a": a}
                    heap.update({"x_" + k2: v2 for k2, v2 in x.items()})
                    before = {k2: val(v2) for k2, v2 in heap.items()}
                    before_raw = before
                    if cls == "argmut":
                        rec["arg"] = "x_" + ent[3]
                    be.seed(17)
                    try:
                        fn(o, a, x)
                    except NotImplementedError:
                        rec["refused"] = "NotImplementedError"
                    except ValueError:
                        if name != "postselect":
                            raise
                        rec["refused"] = "ValueError"        # documented: post-selection needs a pure state
                    except Exception:
                        if name not in ("entropy_arr_neg", "entropy_list_arg"):
                            raise
                        rec["refused"] = "other"             # from-the-end labels need not be accepted; the frame is judged anyway
                    after = {k2: val(v2) for k2, v2 in heap.items()}
                    if cls == "argmut" or kind in LAZY:
                        after["o"] = mask_unset(before["o"], after["o"])
                    rec["before"], rec["after"] = freeze(before), freeze(after)
                except Exception as e:
                    rec["exc"] = _exc(e)
                out.append(rec)
            return out
        if scn["k"] == "pure":
            return self._pure(scn, be, K)
        if scn["k"] == "after":
            return self._after(scn, be, K)
        if scn["k"] == "copy":
            rec = {"op": "copy", "kind": kind}
            how = scn.get("how", "copy")
            try:
                o = K.new(kind, scn["v"])
                if scn.get("grad"):
                    o.cs.requires_grad_(True)          # trainable coefficients: copies must still be independent
                    rec["grad"] = True
                if how == "copy" and not hasattr(o, "copy"):
                    return []            # (pyclifford.Circuit has no copy method)
                rec["orig"] = fz(val(o))
                if how == "copy":
                    c = o.copy()
                else:
                    # Python's own copying protocols: a refusal is accepted, a copy that is handed out must be faithful
                    # and independent like any other
                    rec["how"] = how
                    try:
                        if how == "deepcopy":
                            import copy as _copy
                            c = _copy.deepcopy(o)
                        else:
                            import pickle
                            c = pickle.loads(pickle.dumps(o))
                    except Exception:
                        return []
                rec["copy"] = fz(val(c))
                rec["orig1"] = fz(val(o))
                rec["shares"] = shares(o, c)
                if poke(c) == 0:
                    return []
                rec["copy_poked"] = fz(val(c))
                rec["orig_after_poke_copy"] = fz(val(o))
                poke(o)
                rec["copy_after_poke_orig"] = fz(val(c))
            except Exception as e:
                rec["exc"] = _exc(e)
            return [rec]
        # TLC history over three slots
        rec = {"op": "hist", "kind": kind, "steps": []}
        try:
            slots = {}
            # histories: compose() legitimately shares the argument's gate objects afterwards and povm()/compile()
            # fill lazy maps, so they are exercised in the single-call table only
            qm = [e for e in K.methods[kind] if e[1] == "query" and e[0] not in ("povm",)]
            im = [e for e in K.methods[kind] if e[1] == "inplace" and e[0] not in ("compose", "compile")]
            x = K.aux()
            for j, st in enumerate(scn["steps"]):
                act = st[0]
                s = {"act": act}
                snap = lambda: {"s%d" % k2: fz(val(v2)) for k2, v2 in slots.items()}
                if act == "new":
                    s["o"] = "s%d" % st[1]
                    s["before"] = snap()
                    slots[st[1]] = K.new(kind, st[1] + 3 * scn["salt"])
                elif act == "copy":
                    s["s"], s["d"] = "s%d" % st[1], "s%d" % st[2]
                    s["before"] = snap()
                    slots[st[2]] = slots[st[1]].copy()
                    s["shares"] = shares(slots[st[1]], slots[st[2]])
                elif act == "query":
                    ent = qm[(scn["salt"] + 7 * j) % len(qm)]
                    s["o"], s["meth"] = "s%d" % st[1], ent[0]
                    s["before"] = snap()
                    be.seed(scn["salt"])
                    try:
                        ent[2](slots[st[1]], slots[st[2]], x)
                    except Exception as e:
                        s["raised"] = _exc(e)   # refusals, or kernels asserting on a poked (no longer valid) object;
                                                # the frame conditions below are judged regardless
                elif act == "inplace":
                    x = K.aux()        # fresh external objects for every step: two slots never receive the same gate / map
                    ent = im[(scn["salt"] + 5 * j) % len(im)] if im else None
                    s["o"] = "s%d" % st[1]
                    s["meth"] = ent[0] if ent else "none"
                    s["before"] = snap()
                    be.seed(scn["salt"])
                    if ent:
                        try:
                            ent[2](slots[st[1]], slots[st[2]], x)
                        except Exception as e:
                            s["raised"] = _exc(e)
                elif act == "poke":
                    s["o"] = "s%d" % st[1]
                    s["before"] = snap()
                    if poke(slots[st[1]]) == 0:
                        s["act"] = "query"
                s["after"] = snap()
                rec["steps"].append(s)
        except Exception as e:
            rec["exc"] = _exc(e)
            import traceback
            rec["where"] = traceback.format_exc().strip().splitlines()[-3][:160]
        return [rec]


def _methods3(self, scn, be, K):
    """query methods of a 3-qubit StabilizerState (every rank), whole-object snapshots before / after"""
    import numpy as _np
    v = scn["v"]
    m = self.pool3[v % len(self.pool3)]
    m2 = self.pool3[(v * 7 + 3) % len(self.pool3)]
    r = v % 4
    St = be.stabilizer
    calls = [("entropy_list", lambda o, a: o.entropy([0, 2])), ("entropy_one", lambda o, a: o.entropy([1])),
             ("entropy_mask", lambda o, a: o.entropy(_np.array([True, True, False]))), ("entropy_tuple", lambda o, a: o.entropy((2,))),
             ("expect_list", lambda o, a: o.expect(be.plist([m2[0], m2[3], m[1]]))), ("expect_poly", lambda o, a: o.expect(be.poly([m2[0], m[1]], [0.5, 1j]))),
             ("sample", lambda o, a: o.sample(4)), ("density_matrix", lambda o, a: o.density_matrix), ("to_map", lambda o, a: o.to_map()),
             ("copy", lambda o, a: o.copy()), ("repr", lambda o, a: repr(o)), ("stabilizers", lambda o, a: o.stabilizers), ("tokenize", lambda o, a: o.tokenize()),
             ("to_qutip", lambda o, a: o.to_qutip())]
    if r == 0:
        calls += [("expect_state", lambda o, a: o.expect(a)), ("get_prob", lambda o, a: o.get_prob(be.ivec([0, 1, 1])))]
    if be.name == "py" and r == 0:
        calls.append(("diagonalize", lambda o, a: be.circuit.diagonalize(o)))
    out = []
    for name, fn in calls:
        rec = {"op": "call", "kind": "StabilizerState@3", "meth": name, "cls": "query", "recv": "o"}
        try:
            o = be.state(ins_to_state(m), r)
            a = be.state(ins_to_state(m2), (v // 4) % 4)
            heap = {"o": o, "a": a}
            before = {k2: val(v2) for k2, v2 in heap.items()}
            be.seed(v)
            try:
                fn(o, a)
            except NotImplementedError:
                rec["refused"] = "NotImplementedError"
            after = {k2: val(v2) for k2, v2 in heap.items()}
            rec["before"], rec["after"] = freeze(before), freeze(after)
        except Exception as e:
            rec["exc"] = _exc(e)
        out.append(rec)
    return out


RANDOM_Q = ("sample", "shadow_snapshots", "measured_by_copy", "povm", "layers", "stabilizer_state()")


def _pure(self, scn, be, K):
    kind, v = scn["kind"], scn["v"]
    if kind == "MeasuringCircuit":
        return []
    qm = [e for e in K.methods[kind] if e[1] == "query" and e[0] not in RANDOM_Q]
    im = [e for e in K.methods[kind] if e[1] == "inplace" and e[0] not in ("compose",)]
    out = []
    for qe in qm:
        for ie in (im or [None]):
            rec = {"op": "pure", "kind": kind, "meth": qe[0], "via": ie[0] if ie else "none"}
            try:
                o, a, x = K.new(kind, v), K.new(kind, v + 1), K.aux(v)
                be.seed(5)
                r1 = qe[2](o, a, x)
                rec["first"] = fz(val(r1))
                if not shares(o, r1) and not shares(a, r1) and not any(shares(xv, r1) for xv in x.values()):
                    poke(r1)           # the caller owns the answer: scribbling on it must not reach later answers
                be.seed(5)
                rec["again"] = fz(val(qe[2](o, a, x)))
                if ie is not None:
                    be.seed(9)
                    try:
                        ie[2](o, a, x)
                    except (NotImplementedError, ValueError):
                        pass
                    be.seed(5)
                    try:
                        rec["live"] = fz(val(qe[2](o, a, x)))
                    except Exception as e:
                        rec["live"] = "raised " + type(e).__name__
                    # the same in-place change on an object nobody has queried before
                    o2, a2, x2 = K.new(kind, v), K.new(kind, v + 1), K.aux(v)
                    be.seed(9)
                    try:
                        ie[2](o2, a2, x2)
                    except (NotImplementedError, ValueError):
                        pass
                    be.seed(5)
                    try:
                        rec["fresh"] = fz(val(qe[2](o2, a2, x2)))
                    except Exception as e:
                        rec["fresh"] = "raised " + type(e).__name__
            except NotImplementedError:
                continue
            except Exception as e:
                rec["exc"] = _exc(e)
            out.append(rec)
    return out


def _after(self, scn, be, K):
    kind, v = scn["kind"], scn["v"]
    if kind == "MeasuringCircuit":
        return []
    im = [e for e in K.methods[kind] if e[1] == "inplace"]
    out = []
    for ent in K.methods[kind]:
        if ent[1] == "argmut" or ent[0] in RANDOM_Q or not im:
            continue
        for ie in im[:3] + ([("empty:" + e[0],) + tuple(e[1:]) for e in im[:3]] if kind in ("CliffordCircuit", "Circuit") else []):
            rec = {"op": "after", "kind": kind, "meth": ent[0], "via": ie[0]}
            try:
                o, a, x = K.new(kind, -1 if ie[0].startswith("empty:") else v), K.new(kind, v + 1), K.aux(v)
                be.seed(3)
                try:
                    ent[2](o, a, x)
                except (NotImplementedError, ValueError):
                    continue
                a0v = val(a)
                rec["a0"] = fz(a0v)
                be.seed(4)
                try:
                    ie[2](o, K.new(kind, v + 2), K.aux(v + 1))       # the receiver moves on (fresh argument, fresh externals)
                except (NotImplementedError, ValueError):
                    pass
                # (gate objects taken over by compose() are shared by design: maps they derive lazily later are masked)
                rec["a1"] = fz(mask_unset(a0v, val(a)) if kind in LAZY else val(a))
                o0v = val(o)
                rec["o0"] = fz(o0v)
                be.seed(5)
                try:
                    ie[2](a, K.new(kind, v + 2), K.aux(v + 1))       # ... and so does the former argument
                except (NotImplementedError, ValueError):
                    pass
                rec["o1"] = fz(mask_unset(o0v, val(o)) if kind in LAZY else val(o))
            except Exception as e:
                rec["exc"] = _exc(e)
            out.append(rec)
    return out


C17_pure = _pure


def fz(v):
    """values are compared as canonical strings (TLC refuses to compare values of different shapes)"""
    import json
    return json.dumps(v, sort_keys=True, separators=(",", ":"))


def freeze(h):
    return {k: fz(v) for k, v in h.items()}


def mask_unset(b, a):
    """fields that were unset ('none' / empty) before the call are not compared afterwards"""
    if isinstance(b, dict) and isinstance(a, dict):
        out = {}
        for k, v in a.items():
            if k in b and (b[k] == "none" or b[k] == [] or (k == "log2prob")):
                out[k] = b[k]
            elif k in b:
                out[k] = mask_unset(b[k], v)
            else:
                out[k] = v
        return out
    if isinstance(b, list) and isinstance(a, list) and len(a) == len(b):
        return [mask_unset(x, y) for x, y in zip(b, a)]
    return a


C17._methods3 = _methods3
def _factory(self, scn, be, K):
    P, St, C = be.paulialg, be.stabilizer, be.circuit
    n = 2 + scn["v"] % 2
    sgn = ("", "-")[scn["v"] // 2 % 2]
    g = lambda name: getattr(C, name)
    table = [
        ("pauli(str)", lambda: P.pauli(sgn + "XZY"[:n])),
        ("pauli(list)", lambda: P.pauli([1, 3, 2][:n])),
        ("paulis(strs)", lambda: P.paulis("XZY"[:n], "-" + "ZZX"[:n])),
        ("pauli_identity", lambda: P.pauli_identity(n)),
        ("pauli_zero", lambda: P.pauli_zero(n)),
        ("identity_map", lambda: St.identity_map(n)),
        ("clifford_rotation_map", lambda: St.clifford_rotation_map(be.pauli([1, 3, 2][:n] + [2]))),
        ("zero_state", lambda: St.zero_state(n)),
        ("one_state", lambda: St.one_state(n)),
        ("ghz_state", lambda: St.ghz_state(n)),
        ("maximally_mixed_state", lambda: St.maximally_mixed_state(n)),
        ("stabilizer_state(strs)", lambda: St.stabilizer_state(sgn + "XX" + "I" * (n - 2), "ZZ" + "I" * (n - 2))),
        ("H", lambda: g("H")(0)), ("S", lambda: g("S")(1)), ("X", lambda: g("X")(0)), ("CNOT", lambda: g("CNOT")(0, 1)),
        ("C(5)", lambda: g("C")(5, 0)), ("C(17)", lambda: g("C")(17, 1)),
        ("clifford_rotation_gate", lambda: C.clifford_rotation_gate(be.pauli([1, 3, 2][:n] + [0]))),
        ("identity_circuit", lambda: C.identity_circuit(n)),
    ]
    out = []
    for name, f in table:
        rec = {"op": "factory", "name": name, "n": n}
        try:
            rec["first"] = fz(val(f()))
            x = f()
        except Exception:
            continue               # (a constructor this package does not have / does not support in this form)
        try:
            poke(x)
            if hasattr(x, "rotate_by"):
                x.rotate_by(be.pauli([1] + [0] * (n - 1) + [0]))
            for fm in ("forward_map", "backward_map", "generator"):
                m = getattr(x, fm, None)
                if m is not None and hasattr(m, "rotate_by"):
                    k = len(be.p_list(m)[0]) - 1 if fm != "generator" else len(be.p_pauli(m)) - 1
                    m.rotate_by(be.pauli([2] + [0] * (k - 1) + [0]))
            if hasattr(x, "take") and hasattr(C, "H"):
                x.take(C.H(0))
        except Exception:
            pass
        try:
            rec["again"] = fz(val(f()))
        except Exception as e:
            rec["exc"] = _exc(e)
        out.append(rec)
    return out


C17._factory = _factory
C17._pure = _pure
C17._after = _after
PROP = C17
