"""C14  Mid-circuit measurement and post-selection follow the quantum trajectory."""
from ..core import Prop
from .. import tlc, enum, circ
from ..backend import _as_int, dyadic, INEXACT
from .c02 import _exc, ins_to_state
from .c03 import read_maps


class C14(Prop):
    id = "C14"
    suite_family = ('c14', ('postselect',))
    trace_module = "TraceCircuit"
    trace_cfg = "TraceC14.cfg"
    backends = ("py",)
    chunk = 500
    assumptions = [
        "programs with measurement layers: every sequence of at most 3 (quick) / 4 (thorough) items over the MC_Circuit alphabet incl. Mz[1], Mz[2,3] on N=3",
        "input states: zero, GHZ, maximally mixed and TLC-simulated tableaux of every rank; outcome branches via seeded coin schedules; supplied records: the recorded one, each single-bit corruption, wrong length",
        "backward / post-selection only on pure states (documented refusal otherwise)",
        "post-selection: every pure tableau for N<=2 x every signed Pauli x both requested outcomes",
    ]
    rule = "one record per forward trajectory, per backward pass with a supplied record, per direct MeasureLayer call, per postselect call"

    def models(self):
        pf = "%s/programs.txt" % self.wd
        cfg = "MC_Circuit_t.cfg" if self.tier == "thorough" else "MC_Circuit_q.cfg"
        self.model("MC_Circuit", cfg, name="programs", print_file=pf, timeout=3000)
        self.alpha, self.progs = circ.read_programs(pf)
        self.maps = {}
        for n in (1, 2):
            pf = "%s/maps_n%d.txt" % (self.wd, n)
            self.model("MC_Clifford", "MC_Clifford_maps_n%d.cfg" % n, name="maps_n%d" % n, print_file=pf,
                       expect_distinct=(24 if n == 1 else 11520))
            self.maps[n] = [m for m, _ in read_maps(pf)]
        r = self.model("MC_RotSim", "MC_RotSim_n3.cfg", name="rotsim_n3", workers=1, simulate="num=12", depth=9,
                       seed=self.seed + 80, collect=True)
        self.tabs3 = [e[3] for e in r.printed if e[0] == "S" and e[1] % 3 == 0]

    def scenarios(self):
        thorough = self.tier == "thorough"
        rng = self.rng
        k = 0
        for ids, lay in self.progs:
            if not any(i > 14 for i in ids):
                continue
            k += 1
            if not thorough and len(ids) == 3 and k % 2:
                continue
            inputs = [("zero", None, 0), ("ghz", None, 0), ("mixed", None, 3)]
            t = self.tabs3[k % len(self.tabs3)]
            inputs.append(("tab", ins_to_state(t), k % 4))
            inputs.append(("tab", ins_to_state(self.tabs3[(k * 7 + 1) % len(self.tabs3)]), 0))
            for name, rows, r in (inputs if (thorough and len(ids) < 4) else [inputs[k % 5], inputs[(k + 2) % 5]]):
                yield {"k": "traj", "ids": ids, "init": name, "rows": rows, "r": r, "seed": self.seed * 31337 + k * 16,
                       "mode": ("plain", "layers", "early", "early2")[k % 4]}
        # direct MeasureLayer calls
        for j in range(40 if thorough else 12):
            t = self.tabs3[j % len(self.tabs3)]
            yield {"k": "mlayer", "rows": ins_to_state(t), "r": j % 4, "qs": rng.choice(([1], [2, 3], [1, 2, 3], [3, 1], [2])),
                   "seed": self.seed + j}
        # measurement layers on qubits beyond index 63 of a 66 / 70-qubit register (block on the last 3 qubits, rest mixed)
        from .c02 import embed_tableau
        for j in range(12 if thorough else 4):
            nn = (66, 70)[j % 2]
            t = self.tabs3[j % len(self.tabs3)]
            rows, r = embed_tableau(ins_to_state(t), j % 3, nn)
            qs = ([nn], [nn - 1, nn - 2], [nn - 3, nn], [64, 65, nn - 1])[j % 4]
            yield {"k": "mlayer", "n": nn, "rows": rows, "r": r, "qs": qs, "seed": self.seed + 500 + j}
        # one measurement layer over 1100 qubits run backward on |+...+> with a random record
        yield {"k": "widetrajback", "n": 1100, "seed": self.seed + 700, "pkg": "py"}
        # post-selection on all pure (and some mixed: refusal) tableaux, N <= 2
        for n in (1, 2):
            herm = enum.herm(n)
            maps = self.maps[n]
            pick = maps if (n == 1 or thorough) else rng.sample(maps, 600)
            for i, m in enumerate(pick):
                rows = ins_to_state(m)
                for p in (herm if (n == 1 or i % 4 == 0) else rng.sample(herm, 8)):
                    for b in (0, 1):
                        yield {"k": "postselect", "rows": rows, "r": 0, "p": p, "b": b}
                if i % 20 == 0:
                    yield {"k": "postselect", "rows": rows, "r": 1, "p": herm[i % len(herm)], "b": 0}

    def execute(self, scn, be):
        k = scn["k"]
        St = be.stabilizer
        if k == "postselect":
            rec = {"op": "postselect", "pre": {"rows": scn["rows"], "r": scn["r"]}, "p": scn["p"], "b": scn["b"]}
            try:
                S = be.state(scn["rows"], scn["r"])
                try:
                    pr = S.postselect(be.pauli(scn["p"]), scn["b"])
                    rec["prob"] = dyadic(pr) or INEXACT
                    rec["post"] = be.p_state(S)
                except ValueError:
                    rec["refused"] = "ValueError"
            except Exception as e:
                rec["exc"] = _exc(e)
            return [rec]
        if k == "widetrajback":
            nn = scn["n"]
            import random as _r
            rr = _r.Random(scn["seed"])
            outs = [rr.choice((1, -1)) for _ in range(nn)]
            rec = {"op": "widetrajback", "n": nn, "outs": outs}
            try:
                T = St.zero_state(nn)
                for q in range(nn):
                    be.circuit.H(q).forward(T)
                c = be.circuit.Circuit(nn)
                c.measure(*range(nn))
                try:
                    c.backward(T, measure_result=outs)
                except ValueError:
                    rec["refused"] = "ValueError"
                gs = be.tolist(T.gs)[:nn]
                ps = be.p_ints(T.ps)[:nn]
                supp, lett = [], []
                for row in gs:
                    qs = [q for q in range(nn) if row[2 * q] or row[2 * q + 1]]
                    supp.append([q + 1 for q in qs])
                    lett.append([{(1, 0): 1, (1, 1): 2, (0, 1): 3}[(int(row[2 * q]), int(row[2 * q + 1]))] for q in qs])
                rec["supp"], rec["lett"], rec["phase"] = supp, lett, ps
            except Exception as e:
                rec["exc"] = _exc(e)
            return [rec]
        n = scn.get("n", 3)
        if k == "mlayer":
            items = [{"k": "mz", "qs": scn["qs"], "how": "mz"}]
            rec = {"op": "traj", "via": "MeasureLayer", "prog": [circ.wire_item(items[0])], "pre": {"rows": scn["rows"], "r": scn["r"]}}
            try:
                S = be.state(scn["rows"], scn["r"])
                ml = be.circuit.MeasureLayer(*[q - 1 for q in scn["qs"]], N=n)
                be.seed(scn["seed"])
                ml.forward(S)
                rec["outs"] = be.p_ints(ml.result)
                li = _as_int(ml.log2prob)
                rec["l2p"] = 99 if li is None else li
                rec["post"] = be.p_state(S)
            except Exception as e:
                rec["exc"] = _exc(e)
            return [rec]
        # trajectories through a Circuit
        items = [self.alpha[i] for i in scn["ids"]]
        prog = [circ.wire_item(it) for it in items]
        out = []
        for t in range(3):
            rec = {"op": "traj", "prog": prog, "init": scn["init"], "mode": scn["mode"]}
            try:
                if scn["mode"] in ("early", "early2"):
                    # compiled while still unitary (after the gates in front of the first measurement), then extended;
                    # "early2": compiled once more at the end
                    cut = next((j for j, it in enumerate(items) if it["k"] == "mz"), len(items))
                    c, orig, gates = circ.build(be, items[:cut], n, "Circuit", "plain", "orig")
                    c.compile()
                    for j in range(cut, len(items)):
                        it = items[j]
                        if it["k"] == "mz":
                            c.measure(*[q - 1 for q in it["qs"]])
                            gates.append(c.last_layer)
                        else:
                            g = circ.make_gate(be, it, n, j)
                            c.take(g)
                            gates.append(g)
                    if scn["mode"] == "early2":
                        c.compile()
                else:
                    c, orig, gates = circ.build(be, items, n, "Circuit", scn["mode"] if scn["mode"] != "layers" else "plain", "orig")
                if scn["mode"] == "layers":
                    c.compile()
                rec["layout"] = circ.layout_of(c, orig, gates)
                rec.update(circ.describe(be, c, items))
                if scn["init"] == "tab":
                    S = be.state(scn["rows"], scn["r"])
                else:
                    S = {"zero": St.zero_state, "ghz": St.ghz_state, "mixed": St.maximally_mixed_state}[scn["init"]](n)
                rec["pre"] = be.p_state(S)
                be.seed(scn["seed"] + t)
                c.forward(S)
                rec["outs"] = [(_as_int(v) if _as_int(v) is not None else 0) for v in c.measure_result]
                li = _as_int(c.log2prob)
                rec["l2p"] = 99 if li is None else li
                rec["post"] = be.p_state(S)
                out.append(rec)
                if rec["post"]["r"] == 0 and t == 0:
                    outs = list(rec["outs"])
                    variants = [("own", None), ("same", outs), ("short", outs[:-1]), ("long", outs + [1])]
                    for j in range(len(outs)):
                        v = list(outs)
                        v[j] = -v[j]
                        variants.append(("flip%d" % j, v))
                    for name, supplied in variants:
                        rb = {"op": "trajback", "prog": prog, "variant": name, "pre": rec["post"],
                              "outs": outs if supplied is None else supplied}
                        try:
                            T = be.state(rec["post"]["rows"], 0)
                            try:
                                if supplied is None:
                                    c.backward(T)
                                else:
                                    c.backward(T, measure_result=supplied)
                                rb["post"] = be.p_state(T)
                            except ValueError:
                                rb["refused"] = "ValueError"
                        except Exception as e:
                            rb["exc"] = _exc(e)
                        out.append(rb)
                    # the same Circuit object run forward a second time: backward without a supplied record undoes
                    # the most recent trajectory (the record list accumulates over runs)
                    if outs:
                        rb = {"op": "trajback", "prog": prog, "variant": "own2"}
                        try:
                            if scn["init"] == "tab":
                                S2 = be.state(scn["rows"], scn["r"])
                            else:
                                S2 = {"zero": St.zero_state, "ghz": St.ghz_state, "mixed": St.maximally_mixed_state}[scn["init"]](n)
                            be.seed(scn["seed"] + 101)
                            c.forward(S2)
                            p2 = be.p_state(S2)
                            rb["pre"] = p2
                            rb["outs"] = [(_as_int(v) if _as_int(v) is not None else 0) for v in c.measure_result][-len(outs):]
                            if p2["r"] == 0:
                                T = be.state(p2["rows"], 0)
                                try:
                                    c.backward(T)
                                    rb["post"] = be.p_state(T)
                                except ValueError:
                                    rb["refused"] = "ValueError"
                                out.append(rb)
                        except Exception as e:
                            rb["exc"] = _exc(e)
                            out.append(rb)
            except Exception as e:
                rec["exc"] = _exc(e)
                out.append(rec)
        return out


PROP = C14
