"""C10  backward is the exact inverse of forward (same driver as C09, inverse clauses)."""
from .c09 import C09


class C10(C09):
    id = "C10"
    trace_cfg = "TraceC10.cfg"
    refusal_family = None
    want = ("bwd",)
    rule = ("one record per (program, configuration): forward-then-backward and backward-then-forward images of a map probe, a list probe with "
            "all four phases and a signed rank-1 state probe must equal the originals bitwise; backward alone must equal the inverse gates in reverse order")


PROP = C10
