"""C15  Pauli polynomial arithmetic is a faithful operator algebra."""
import numbers
from ..core import Prop
from .. import tlc, enum
from ..backend import dyadic, dyadic_fine, bits_wire
from .c02 import _exc


def coef3(c, fine=False):
    """complex -> (re, im, e) over a common denominator 2^e; e = 99 if not exactly dyadic"""
    if hasattr(c, "item"):
        c = c.item()
    c = complex(c)
    if fine:
        emax = 24 if fine is True else fine
        dy = lambda x: dyadic_fine(x, emax)
    else:
        dy = dyadic
    a, b = dy(c.real), dy(c.imag)
    if a is None or b is None:
        return (0, 0, 99)
    e = max(a[1], b[1])
    return (a[0] * 2 ** (e - a[1]), b[0] * 2 ** (e - b[1]), e)


def pv(be, obj, n, fine=False):
    """project a library value to {t, terms}"""
    P = be.paulialg
    if fine:
        c3 = lambda c: coef3(c, fine)
    else:
        c3 = coef3
    if isinstance(obj, numbers.Number) or (hasattr(obj, "ndim") and getattr(obj, "ndim", 1) == 0) or (hasattr(obj, "dim") and callable(obj.dim) and obj.dim() == 0):
        return {"t": "K", "terms": [[[0] * n + [0]] + list(c3(obj))]}
    if hasattr(P, "PauliMonomial") and isinstance(obj, P.PauliMonomial):
        return {"t": "M", "terms": [[be.p_pauli(obj)] + list(c3(obj.c))]}
    if isinstance(obj, P.Pauli):
        return {"t": "P", "terms": [[be.p_pauli(obj), 1, 0, 0]]}
    if isinstance(obj, P.PauliPolynomial):
        ws = be.p_list(obj)
        cs = be.tolist(obj.cs)
        return {"t": "Q", "terms": [[w] + list(c3(c)) for w, c in zip(ws, cs)]}
    if isinstance(obj, P.PauliList):
        return {"t": "L", "terms": [[w, 1, 0, 0] for w in be.p_list(obj)]}
    if hasattr(obj, "tolist"):      # array of numbers (trace of a list)
        return {"t": "A", "terms": [[[0] * n + [0]] + list(c3(c)) for c in obj.tolist()]}
    raise TypeError("unprojectable value of type %s" % type(obj).__name__)


def maxe(v):
    return max([t[3] for t in v["terms"] if t[3] < 99] + [0])


def mk(be, typ, terms):
    cs = [complex(t[1], t[2]) / 2 ** t[3] for t in terms]
    ws = [t[0] for t in terms]
    if typ == "P":
        return be.pauli(ws[0])
    if typ == "M":
        p = be.pauli(ws[0])
        return be.paulialg.PauliMonomial(p.g, p.p).set_c(cs[0])
    if typ == "Q":
        return be.poly(ws, cs)
    if typ == "L":
        return be.plist(ws)
    c = cs[0]
    return c.real if c.imag == 0 else c


class C15(Prop):
    id = "C15"
    trace_module = "TracePoly"
    trace_cfg = "TracePoly.cfg"
    backends = ("py", "torch")
    chunk = 4000
    assumptions = [
        "PauliPoly algebra (sum, product, scalar, trace, equality of denotations) grounded by TLC in 4x4 Gaussian-integer matrices over the operand pool",
        "expression trees: every well-typed stack program with at most 2 binary operators plus unary wrappers over a 13-element pool (N=2) enumerated by TLC; each step is judged relative to its recorded operands",
        "coefficients are exact dyadic Gaussian rationals; float rounding and the exact location of the reduce tolerance are outside the model (explicit tolerances are chosen away from any coefficient modulus)",
        "torchclifford has no PauliMonomial and cannot add plain numbers or lists; torch runs the programs it supports (Pauli / polynomial / number-scaling)",
    ]
    rule = "one record per arithmetic step (+, -, @, number*, /number, neg, reduce, trace, copy, rotate, dense export) of a TLC-enumerated expression program"

    def models(self):
        pf = "%s/exprs.txt" % self.wd
        self.model("MC_PauliPoly", "MC_PauliPoly_q.cfg", name="expr_machine", print_file=pf)
        self.pool, self.progs = {}, []
        with open(pf) as f:
            for line in f:
                e = tlc.parse_tla_value(line)
                if e[0] == "O":
                    self.pool[e[1]] = (e[2], [[t[0], t[1], t[2], t[3]] for t in e[3]])
                elif e[0] == "X":
                    self.progs.append(e[1])

    def scenarios(self):
        thorough = self.tier == "thorough"
        progs = self.progs if thorough else self.rng.sample(self.progs, 9000)
        for i, p in enumerate(progs):
            types = {self.pool[s[1]][0] for s in p if s[0] == "push"}
            yield {"k": "prog", "prog": p, "pkg": "py", "extra": i % 6 == 0}
            if "M" not in types and "L" not in types and i % (2 if thorough else 4) == 0 and self._torch_ok(p):
                yield {"k": "prog", "prog": p, "pkg": "torch", "extra": i % 12 == 0}
        # histories on LIVE operands: the same objects are used in arithmetic, mutated in place by the public
        # rotate_by / transform_by, and used again (stale caches, aliasing between an operand and earlier results)
        for t in range(120 if thorough else 40):
            seq = []
            names = ["P", "P2", "M", "Q", "Q2"]
            for _ in range(self.rng.randrange(6, 12)):
                c = self.rng.random()
                a, b = self.rng.choice(names), self.rng.choice(names)
                if c < 0.3:
                    seq.append(["rot", a, [self.rng.randrange(1, 4), self.rng.randrange(4), self.rng.choice((0, 2))]])
                elif c < 0.4:
                    seq.append(["tf", a])
                elif c < 0.6:
                    seq.append(["matmul", a, b])
                elif c < 0.75:
                    seq.append(["add", a, b])
                elif c < 0.85:
                    seq.append(["sub", a, b])
                elif c < 0.92:
                    seq.append(["mul", a])
                else:
                    seq.append(["trace", a])
            yield {"k": "live", "seq": seq, "pkg": "py"}
            if t % 3 == 0:
                yield {"k": "live", "seq": [s for s in seq if "M" not in s[1:3]], "pkg": "torch"}
        # wider registers (13..66 qubits): polynomials whose strings agree on a long prefix and differ on the last qubits only,
        # or on the first only (string comparison / de-duplication keys must see every column)
        for n_ in (13, 16, 30, 66):
            for t in range(3):
                base = [self.rng.randrange(4) if t else (1 if q == 0 else 0) for q in range(n_)]
                var = []
                for d in range(6):
                    w = list(base)
                    w[n_ - 1 - d % 3] = (w[n_ - 1 - d % 3] + 1 + d // 3) % 4
                    if d == 5:
                        w = list(base)
                        w[0] = (w[0] + 2) % 4
                    var.append(w + [self.rng.randrange(4)])
                yield {"k": "wpoly", "nn": n_, "a": [[base + [0], 1, 0, 0]] + [[w, self.rng.choice((1, -1, 3)), self.rng.choice((0, 1)), 1] for w in var[:3]],
                       "b": [[w, self.rng.choice((1, 2, -1)), 0, 0] for w in var[2:]] + [[base + [2], 1, 0, 1]]}
        # a large part that cancels exactly, leaving a small remainder: (A + B) - B = A with |B| / |A| up to 2^39
        for big in (4096, 2 ** 20, 1):
            for sh in (27, 19, 12):
                for j in range(3):
                    yield {"k": "cancel", "big": big, "sh": sh, "j": j, "pkg": "py"}
        # arithmetic on stabilizer states = polynomial arithmetic on their density-matrix expansion (itself judged under C19)
        for r in (0, 1, 2):
            for i in sorted(self.pool):
                if self.pool[i][0] in ("P", "M", "Q", "K"):
                    yield {"k": "rho", "r": r, "i": i, "pkg": "py"}
        for n_ in (1, 2, 3, 5):
            yield {"k": "const", "name": "identity", "nn": n_}
            yield {"k": "const", "name": "zero", "nn": n_}
        for i in sorted(self.pool):
            typ, terms = self.pool[i]
            for to in ("as_monomial", "as_polynomial", "as_list"):
                if (typ == "P") or (typ == "M" and to == "as_polynomial") or (typ == "L" and to == "as_polynomial"):
                    s_ = {"k": "cast", "i": i, "to": to}
                    if typ == "M" or to == "as_monomial":
                        s_["pkg"] = "py"           # torchclifford has no PauliMonomial
                    yield s_
        # scalars next to the units: c = u * (1 +- 2^-k) must not be taken for the unit u (pyclifford, double precision)
        for i in sorted(self.pool):
            typ, terms = self.pool[i]
            if typ in ("P", "M", "Q") and all(t[3] == 0 for t in terms):
                for k in (14, 17, 20, 23):
                    for u in range(4):
                        for sg in (1, -1):
                            yield {"k": "fine", "i": i, "kk": k, "u": u, "sg": sg, "pkg": "py"}
        for i in sorted(self.pool):
            typ, terms = self.pool[i]
            if typ == "Q":
                for tol in ([3, 3], [1, 0], [5, 1], [9, 2], [1, 4]):
                    yield {"k": "reduce_tol", "i": i, "tol": tol}

    def _torch_ok(self, p):
        # torch: numbers only as scalars (mul/div), never as summands
        st = []
        for s in p:
            if s[0] == "push":
                st.append(self.pool[s[1]][0])
            elif s[0] in ("add", "sub", "matmul"):
                b, a = st.pop(), st.pop()
                if "K" in (a, b):
                    return False
                st.append("Q")
            elif s[0] in ("mul", "div"):
                b, a = st.pop(), st.pop()
                st.append("Q")
        return True

    def execute(self, scn, be):
        n = 2
        if scn["k"] == "reduce_tol":
            typ, terms = self.pool[scn["i"]]
            rec = {"op": "reduce", "n": n, "tol": scn["tol"]}
            try:
                x = mk(be, typ, terms)
                rec["x"] = pv(be, x, n)
                r = x.reduce(scn["tol"][0] / 2.0 ** scn["tol"][1])
                rec["ret"] = pv(be, r, n)
                rec["x1"] = pv(be, x, n)
                rec["E"] = maxe(rec["x"]) + maxe(rec["ret"]) + scn["tol"][1]
            except Exception as e:
                rec["exc"] = _exc(e)
                rec.setdefault("E", 8)
            return [rec]
        if scn["k"] == "live":
            return self._live(scn, be, n)
        if scn["k"] == "wpoly":
            nn = scn["nn"]
            out = []
            # (traces only where 2^N times a coefficient still is a machine integer -- and a TLC integer)
            for op in ("add", "sub", "matmul", "reduce") + (("trace",) if nn <= 16 else ()):
                rec = {"op": op, "n": nn, "expect_refuse": False}
                try:
                    x, y = mk(be, "Q", scn["a"]), mk(be, "Q", scn["b"])
                    rec["x"] = pv(be, x, nn)
                    if op in ("add", "sub", "matmul"):
                        rec["y"] = pv(be, y, nn)
                        r = (x + y) if op == "add" else (x - y) if op == "sub" else (x @ y)
                    elif op == "reduce":
                        r = (x + x).reduce()
                        rec["x"] = pv(be, x + x, nn)
                        rec["tol"] = [0, 0]
                    else:
                        r = x.trace()
                    rec["ret"] = pv(be, r, nn)
                    rec["E"] = maxe(rec["x"]) + (maxe(rec["y"]) if "y" in rec else 0) + maxe(rec["ret"])
                except Exception as e:
                    rec["exc"] = _exc(e)
                    rec.setdefault("E", 8)
                out.append(rec)
            return out
        if scn["k"] == "cancel":
            strs = [[1, 3, 0], [2, 0, 0], [0, 0, 0], [3, 3, 2]]
            sh = scn["sh"]
            a_terms = [[strs[(scn["j"] + t) % 4], (1, -3, 5)[t], (0, 1, 0)[t], sh] for t in range(3)]
            out = []
            for order in ("ab", "ba", "num"):
                rec = {"op": "cancel", "n": n, "big": scn["big"], "order": order, "E": sh}
                try:
                    A = mk(be, "Q", a_terms)
                    rec["x"] = pv(be, A, n, fine=sh)
                    if order == "num":
                        r = (A + float(scn["big"])) - float(scn["big"])           # a multiple of the identity added and removed
                    else:
                        B = mk(be, "Q", [[strs[(scn["j"] + t) % 4][:-1] + [0], scn["big"], 0, 0] for t in range(2)] + [[[2, 2, 0], scn["big"], 0, 0]])
                        r = ((A + B) if order == "ab" else (B + A)) - B
                    rec["ret"] = pv(be, r, n, fine=sh)
                    rec["x1"] = pv(be, A, n, fine=sh)
                except Exception as e:
                    rec["exc"] = _exc(e)
                out.append(rec)
            return out
        if scn["k"] == "rho":
            typ, terms = self.pool[scn["i"]]
            out = []
            rows = [[3, 0, 0], [3, 3, 2], [1, 1, 2], [0, 1, 0]]      # ZI, -ZZ | -XX, IX : a signed valid tableau
            for op in ("neg", "mul", "div", "add", "sub", "matmul"):
                if typ == "K" and op == "matmul":
                    continue
                rec = {"op": op, "n": n, "rho": True, "expect_refuse": False}
                try:
                    S = be.state(rows, scn["r"])
                    y = mk(be, typ, terms)
                    D = S.density_matrix
                    if op == "neg":
                        rec["x"] = pv(be, D, n)
                        r = -S
                    elif op == "mul":
                        rec["x"], rec["y"] = {"t": "K", "terms": [[[0] * n + [0], 3, -1, 1]]}, pv(be, D, n)
                        r = (1.5 - 0.5j) * S
                    elif op == "div":
                        rec["x"], rec["y"] = pv(be, D, n), {"t": "K", "terms": [[[0] * n + [0], 0, 1, 1]]}
                        r = S / 0.5j
                    else:
                        rec["x"], rec["y"] = pv(be, D, n), pv(be, y, n)
                        r = (S + y) if op == "add" else (S - y) if op == "sub" else (S @ y)
                    rec["ret"] = pv(be, r, n)
                    rec["E"] = maxe(rec["x"]) + (maxe(rec["y"]) if "y" in rec else 0) + maxe(rec["ret"])
                    rec["s1"] = be.p_state(S) == {"rows": rows, "r": scn["r"]}
                except Exception as e:
                    rec["exc"] = _exc(e)
                    rec.setdefault("E", 8)
                out.append(rec)
            return out
        if scn["k"] == "const":
            rec = {"op": "const", "name": scn["name"], "n": scn["nn"], "E": 0}
            try:
                f = be.paulialg.pauli_identity if scn["name"] == "identity" else be.paulialg.pauli_zero
                rec["ret"] = pv(be, f(scn["nn"]), scn["nn"])
            except Exception as e:
                rec["exc"] = _exc(e)
            return [rec]
        if scn["k"] == "cast":
            typ, terms = self.pool[scn["i"]]
            rec = {"op": "cast", "n": n, "to": scn["to"]}
            try:
                x = mk(be, typ, terms)
                if not hasattr(x, scn["to"]):
                    return []
                rec["x"] = pv(be, x, n)
                rec["ret"] = pv(be, getattr(x, scn["to"])(), n)
                rec["x1"] = pv(be, x, n)
                rec["E"] = maxe(rec["x"]) + maxe(rec["ret"])
            except Exception as e:
                rec["exc"] = _exc(e)
                rec.setdefault("E", 8)
            return [rec]
        if scn["k"] == "fine":
            typ, terms = self.pool[scn["i"]]
            k = scn["kk"]
            num = 2 ** k + scn["sg"]
            re, im = [(num, 0), (0, num), (-num, 0), (0, -num)][scn["u"]]
            rec = {"op": "mul", "n": n, "fine": True, "x": {"t": "K", "terms": [[[0] * n + [0], re, im, k]]}, "expect_refuse": False, "E": k}
            try:
                y = mk(be, typ, terms)
                rec["y"] = pv(be, y, n)
                c = complex(re, im) / 2 ** k
                r = (c.real if c.imag == 0 else c) * y
                rec["ret"] = pv(be, r, n, fine=True)
                rec["y1"] = pv(be, y, n)
            except Exception as e:
                rec["exc"] = _exc(e)
            return [rec]
        out = []
        stack = []
        for step in scn["prog"]:
            op = step[0]
            if op == "push":
                typ, terms = self.pool[step[1]]
                stack.append(mk(be, typ, terms))
                continue
            rec = {"op": op, "n": n}
            try:
                if op in ("add", "sub", "matmul", "mul", "div"):
                    y, x = stack.pop(), stack.pop()
                    rec["x"], rec["y"] = pv(be, x, n), pv(be, y, n)
                    rec["expect_refuse"] = ((op == "matmul" and rec["y"]["t"] in ("L", "K")) or
                                            (op == "mul" and rec["y"]["t"] == "L" and rec["x"]["terms"][0][1:] not in ([1, 0, 0], [-1, 0, 0], [0, 1, 0], [0, -1, 0])) or
                                            (op == "div" and rec["x"]["t"] == "L" and rec["y"]["terms"][0][1:] not in ([1, 0, 0], [-1, 0, 0], [0, 1, 0], [0, -1, 0])))
                    try:
                        if op == "add":
                            r = x + y
                        elif op == "sub":
                            r = x - y
                        elif op == "matmul":
                            r = x @ y
                        elif op == "mul":
                            r = x * y
                        else:
                            r = x / y
                    except NotImplementedError:
                        rec["refused"] = "NotImplementedError"
                        rec["E"] = 8
                        out.append(rec)
                        return out
                    rec["ret"] = pv(be, r, n)
                    rec["x1"], rec["y1"] = pv(be, x, n), pv(be, y, n)
                    rec["E"] = maxe(rec["x"]) + maxe(rec["y"]) + maxe(rec["ret"])
                    stack.append(r)
                else:
                    x = stack.pop()
                    rec["x"] = pv(be, x, n)
                    if op == "neg":
                        r = -x
                    elif op == "reduce":
                        r = x.reduce()
                        rec["tol"] = [0, 0]
                    elif op == "trace":
                        r = x.trace()
                    else:
                        r = x.copy()
                    rec["ret"] = pv(be, r, n)
                    rec["x1"] = pv(be, x, n)
                    rec["E"] = maxe(rec["x"]) + maxe(rec["ret"])
                    stack.append(r)
            except Exception as e:
                rec["exc"] = _exc(e)
                rec.setdefault("E", 8)
                out.append(rec)
                return out
            out.append(rec)
        # extras on the final value: dense export and linearity of a rotation
        if scn.get("extra") and stack and out and "ret" in out[-1] and out[-1]["ret"]["t"] in ("P", "M", "Q"):
            x = stack[-1]
            rec = {"op": "qutip", "n": n}
            try:
                rec["x"] = pv(be, x, n)
                q = x.to_qutip()
                # the empty sum is exported as the plain number 0: read it as the zero matrix
                arr = q.full() if hasattr(q, "full") else [[complex(q)] * 4 for _ in range(4)]
                mat = []
                for a in range(4):
                    row = []
                    for b in range(4):
                        row.append(list(coef3(arr[a][b])))
                    mat.append(row)
                rec["mat"] = mat
                rec["E"] = max([maxe(rec["x"])] + [m[2] for r_ in mat for m in r_ if m[2] < 99])
                if any(m[2] == 99 for r_ in mat for m in r_):
                    rec["E"] = 8
            except Exception as e:
                rec["exc"] = _exc(e)
                rec.setdefault("E", 8)
            out.append(rec)
            if out[-2]["ret"]["t"] == "Q" and len(out[-2]["ret"]["terms"]) > 0:
                rec = {"op": "rot", "n": n, "g": [1, 2, 2]}
                try:
                    y = x.copy()
                    rec["x"] = pv(be, y, n)
                    y.rotate_by(be.pauli([1, 2, 2]))
                    rec["ret"] = pv(be, y, n)
                    rec["E"] = maxe(rec["x"]) + maxe(rec["ret"])
                except Exception as e:
                    rec["exc"] = _exc(e)
                    rec.setdefault("E", 8)
                out.append(rec)
        return out


def _live(self, scn, be, n):
    objs = {"P": mk(be, *self.pool[1]), "P2": mk(be, *self.pool[2]), "Q": mk(be, *self.pool[6]), "Q2": mk(be, *self.pool[7])}
    if be.name == "py":
        objs["M"] = mk(be, *self.pool[4])
    tfmap = be.cmap([[1, 1, 2], [3, 0, 0], [0, 1, 0], [3, 3, 2]])
    out = []
    for st in scn["seq"]:
        op = st[0]
        if st[1] not in objs or (len(st) > 2 and isinstance(st[2], str) and st[2] not in objs):
            continue
        rec = {"op": op, "n": n, "live": True}
        try:
            x = objs[st[1]]
            if op == "rot":
                rec["x"] = pv(be, x, n)
                rec["g"] = st[2]
                x.rotate_by(be.pauli(st[2]))
                rec["ret"] = pv(be, x, n)
                rec["E"] = maxe(rec["x"]) + maxe(rec["ret"])
            elif op == "tf":
                x.transform_by(tfmap)      # judged under C03; here it only changes the live operand
                continue
            elif op in ("matmul", "add", "sub"):
                y = objs[st[2]]
                rec["x"], rec["y"] = pv(be, x, n), pv(be, y, n)
                rec["expect_refuse"] = False
                r = (x @ y) if op == "matmul" else (x + y) if op == "add" else (x - y)
                rec["ret"] = pv(be, r, n)
                rec["x1"], rec["y1"] = pv(be, x, n), pv(be, y, n)
                rec["E"] = maxe(rec["x"]) + maxe(rec["y"]) + maxe(rec["ret"])
            elif op == "mul":
                rec["x"] = {"t": "K", "terms": [[[0] * n + [0], 1, 0, 1]]}
                rec["y"] = pv(be, x, n)
                rec["expect_refuse"] = False
                r = 0.5 * x
                rec["ret"] = pv(be, r, n)
                rec["E"] = 1 + maxe(rec["y"]) + maxe(rec["ret"])
            elif op == "trace":
                rec["x"] = pv(be, x, n)
                rec["ret"] = pv(be, x.trace(), n)
                rec["E"] = maxe(rec["x"]) + maxe(rec["ret"])
        except Exception as e:
            rec["exc"] = _exc(e)
            rec.setdefault("E", 8)
            out.append(rec)
            break
        out.append(rec)
    return out


C15._live = _live
PROP = C15
