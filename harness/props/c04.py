"""C04  Clifford maps form a group under compose and inverse."""
from ..core import Prop
from .. import tlc, enum
from .c02 import _exc
from .c03 import read_maps


class C04(Prop):
    id = "C04"
    trace_module = "TraceClifford"
    trace_cfg = "TraceClifford.cfg"
    suite_family = ('clifford', ('compose', 'inverse'))
    backends = ("py", "torch")
    chunk = 4000
    assumptions = [
        "the walk carries the inverse compositionally (no linear algebra in the oracle); TLC checks IsInverse, neutrality, associativity in every state",
        "exhaustive N<=2 in thorough (all maps: inverse; all 345600 walk edges: compose); quick subsamples N=2 by VERIF_SEED; N=3..5 from TLC -simulate",
        "object identity (fresh result) observed with Python `is` / shared-buffer test from outside",
    ]
    rule = "one record per inverse()/compose()/identity_map()/z2inv call or per group-law evaluation on the code's own results; distinct = distinct record lines"

    def models(self):
        # L2: transcribed GF(2) elimination (z2rank, z2inv) against its definition on all matrices up to 3x3 (4x4 thorough)
        self.model("MC_Z2", "MC_Z2_t.cfg" if self.tier == "thorough" else "MC_Z2_q.cfg", name="z2_linear_algebra", workers=4, timeout=3000)
        self.maps, self.edges, self.rotmaps = {}, {}, {}
        for n in (1, 2):
            pf = "%s/walk_n%d.txt" % (self.wd, n)
            self.model("MC_Clifford", "MC_Clifford_c04_n%d.cfg" % n, name="group_n%d" % n, print_file=pf,
                       expect_distinct=(24 if n == 1 else 11520))
            self.maps[n] = read_maps(pf)
            self.edges[n] = pf
            self.rotmaps[n] = {}
            with open(pf) as f:
                for line in f:
                    if '"R' in line[:8]:
                        e = tlc.parse_tla_value(line)
                        self.rotmaps[n][tuple(e[1])] = e[2]
        self.big = []
        nb = 60 if self.tier == "thorough" else 8
        for n in (3, 4, 5):
            r = self.model("MC_RotSim", "MC_RotSim_n%d.cfg" % n, name="rotsim_n%d" % n, workers=1, simulate="num=%d" % nb,
                           depth=12, seed=self.seed + 20 + n, collect=True)
            for e in r.printed:
                if e[0] == "S" and e[1] % 3 == 0:
                    self.big.append((e[3], e[4]))

        # dense maps on many qubits (long walks): the GF(2) elimination of inverse() sees 18..32 columns
        self.huge = []
        # ... and one register across the 64-bit word boundary (66 qubits, 132 columns)
        for n, depth, num in ((9, 60, 4), (12, 90, 3), (16, 120, 4 if self.tier != "thorough" else 12), (66, 10, 1 if self.tier != "thorough" else 3)):
            r = self.model("MC_RotSim", "MC_RotSim_n%d.cfg" % n, name="rotsim_n%d" % n, workers=1, simulate="num=%d" % num,
                           depth=depth, seed=self.seed + 200 + n, collect=True, timeout=1500)
            last = None
            for e in r.printed:
                if e[0] != "S":
                    continue
                if e[1] == 1 and last is not None:
                    self.huge.append(last)
                last = (e[3], e[4])
                if e[1] in (depth // 2,):
                    self.huge.append(last)
            if last is not None:
                self.huge.append(last)

    def scenarios(self):
        thorough = self.tier == "thorough"
        rng = self.rng
        for n in (1, 2):
            maps = self.maps[n]
            pick = maps if (n == 1 or thorough) else rng.sample(maps, 3000)
            for i, (m, minv) in enumerate(pick):
                s = {"k": "inverse", "m": m, "exp": minv}
                if n == 2 and i % 10 and not thorough:
                    s["pkg"] = "py"
                yield s
            # compose along the walk edges: m ; RotMap(G) = m'
            edges = []
            with open(self.edges[n]) as f:
                for line in f:
                    if '"E' in line[:8]:
                        edges.append(line)
            if n == 2 and not thorough:
                edges = rng.sample(edges, 6000)
            for i, line in enumerate(edges):
                e = tlc.parse_tla_value(line)
                s = {"k": "compose", "a": e[1], "b": self.rotmaps[n][tuple(e[2])], "exp": e[3]}
                if n == 2 and i % 12:
                    s["pkg"] = "py"
                yield s
            # arbitrary pairs / triples
            only = [m for m, _ in maps]
            if n == 1:
                pairs = [(a, b) for a in only for b in only]
            else:
                pairs = [(rng.choice(only), rng.choice(only)) for _ in range(8000 if thorough else 800)]
            for i, (a, b) in enumerate(pairs):
                s = {"k": "compose", "a": a, "b": b}
                if n == 2 and i % 8:
                    s["pkg"] = "py"
                yield s
                if i % 4 == 0:
                    t = {"k": "antihom", "a": a, "b": b}
                    u = {"k": "assoc", "a": a, "b": b, "c": only[(i * 31 + 5) % len(only)]}
                    if n == 2 and i % 16:
                        t["pkg"] = u["pkg"] = "py"
                    yield t
                    yield u
        for m, minv in self.big + self.huge:
            yield {"k": "inverse", "m": m, "exp": minv}
            yield {"k": "compose", "a": m, "b": minv}
        # operands held in read-only arrays: inverse() and compose() only read them
        for n in (1, 2):
            for m, _mi in (self.maps[n][:8] if n == 1 else rng.sample(self.maps[n], 60)):
                yield {"k": "inverse", "m": m, "ro": True, "pkg": "py"}
                yield {"k": "compose", "a": m, "b": self.maps[n][0][0], "ro": True, "pkg": "py"}
        # an operand composed with itself (one object in both roles)
        for n in (1, 2):
            for m, _mi in (self.maps[n] if n == 1 else rng.sample(self.maps[n], 300)):
                yield {"k": "compose", "a": m, "b": m, "same": True}
        for n in (1, 2, 3, 4):
            yield {"k": "identity", "n": n}
        # z2inv must refuse singular matrices
        import itertools
        for bits in itertools.product((0, 1), repeat=4):
            if (bits[0] * bits[3] - bits[1] * bits[2]) % 2 == 0:
                yield {"k": "singular", "mat": [list(bits[:2]), list(bits[2:])], "pkg": "py"}
        for t in range(30):
            n = 4
            rows = [[rng.randrange(2) for _ in range(n)] for _ in range(n - 1)]
            j = rng.randrange(n - 1)
            k2 = rng.randrange(n - 1)
            rows.insert(rng.randrange(n), [(rows[j][c] + (rows[k2][c] if k2 != j else 0)) % 2 for c in range(n)])
            yield {"k": "singular", "mat": rows, "pkg": "py"}

    def execute(self, scn, be):
        k = scn["k"]
        rec = {"op": k}
        try:
            if k == "inverse":
                rec["m"] = scn["m"]
                M = be.cmap(scn["m"])
                if scn.get("ro"):
                    be.freeze(M)
                    rec["ro"] = True
                    R = M.inverse()
                    rec["ret"] = be.p_list(R)
                    rec["m1"] = be.p_list(M)
                    rec["fresh"] = (R is not M) and not _shares(be, R, M)
                    return [rec]
                R = M.inverse()
                rec["ret"] = be.p_list(R)
                rec["m1"] = be.p_list(M)
                rec["fresh"] = (R is not M) and not _shares(be, R, M)
                # the caller owns the new map: after it is changed in place, inverting again gives the inverse again
                n_ = len(scn["m"]) // 2
                R.rotate_by(be.pauli([2] * n_ + [0]))
                R.ps[0] = (R.ps[0] + 2) % 4
                rec2 = {"op": "inverse", "m": scn["m"], "again": True}
                R2 = M.inverse()
                rec2["ret"] = be.p_list(R2)
                rec2["m1"] = be.p_list(M)
                rec2["fresh"] = (R2 is not M) and (R2 is not R) and not _shares(be, R2, M) and not _shares(be, R2, R)
                if n_ > 16:
                    return [rec, rec2]
                # ... and the changed map is a map like any other: its inverse is the inverse of what it is now
                rec3 = {"op": "inverse", "m": be.p_list(R), "again": True}
                R3 = R.inverse()
                rec3["ret"] = be.p_list(R3)
                rec3["m1"] = be.p_list(R)
                rec3["fresh"] = (R3 is not R) and not _shares(be, R3, R)
                M.rotate_by(be.pauli([1] * n_ + [2]))           # the original moves on as well
                rec4 = {"op": "inverse", "m": rec3["m"], "again": True}
                rec4["ret"] = be.p_list(R.inverse())
                rec4["m1"] = be.p_list(R)
                rec4["fresh"] = True
                # ... and the original, which has been inverted before and has since been rotated in place, is inverted as the
                # map it is NOW; once more after a transform_by (by its own former inverse) and after an embed
                rec5 = {"op": "inverse", "m": be.p_list(M), "again": True}
                rec5["ret"] = be.p_list(M.inverse())
                rec5["m1"] = be.p_list(M)
                rec5["fresh"] = True
                M.transform_by(R2)
                rec6 = {"op": "inverse", "m": be.p_list(M), "again": True}
                rec6["ret"] = be.p_list(M.inverse())
                rec6["m1"] = be.p_list(M)
                rec6["fresh"] = True
                return [rec, rec2, rec3, rec4, rec5, rec6]
            elif k == "compose":
                rec["a"], rec["b"] = scn["a"], scn["b"]
                A, B = be.cmap(scn["a"]), be.cmap(scn["b"])
                if scn.get("ro"):
                    be.freeze(A)
                    be.freeze(B)
                    rec["ro"] = True
                    R = A.compose(B)
                    rec["ret"] = be.p_list(R)
                    rec["a1"], rec["b1"] = be.p_list(A), be.p_list(B)
                    rec["fresh"] = (R is not A) and (R is not B) and not _shares(be, R, A) and not _shares(be, R, B)
                    return [rec]
                if scn.get("same"):
                    B = A
                R = A.compose(B)
                rec["ret"] = be.p_list(R)
                rec["a1"], rec["b1"] = be.p_list(A), be.p_list(B)
                rec["fresh"] = (R is not A) and (R is not B) and not _shares(be, R, A) and not _shares(be, R, B)
                n_ = len(scn["a"]) // 2
                R.rotate_by(be.pauli([1] * n_ + [2]))
                R.ps[0] = (R.ps[0] + 2) % 4
                rec2 = {"op": "compose", "a": scn["a"], "b": scn["b"], "again": True}
                R2 = A.compose(B)
                rec2["ret"] = be.p_list(R2)
                rec2["a1"], rec2["b1"] = be.p_list(A), be.p_list(B)
                rec2["fresh"] = (R2 is not R) and not _shares(be, R2, R) and not _shares(be, R2, A) and not _shares(be, R2, B)
                return [rec, rec2]
            elif k == "assoc":
                rec["a"], rec["b"], rec["c"] = scn["a"], scn["b"], scn["c"]
                A, B, C = be.cmap(scn["a"]), be.cmap(scn["b"]), be.cmap(scn["c"])
                rec["l"] = be.p_list(A.compose(B).compose(C))
                rec["r"] = be.p_list(A.compose(B.compose(C)))
            elif k == "antihom":
                rec["a"], rec["b"] = scn["a"], scn["b"]
                A, B = be.cmap(scn["a"]), be.cmap(scn["b"])
                rec["l"] = be.p_list(A.compose(B).inverse())
                rec["r"] = be.p_list(B.inverse().compose(A.inverse()))
            elif k == "identity":
                rec["n"] = scn["n"]
                rec["ret"] = be.p_list(be.stabilizer.identity_map(scn["n"]))
            elif k == "singular":
                rec["mat"] = scn["mat"]
                import numpy
                be.utils.z2inv(numpy.array(scn["mat"], dtype=numpy.int_))
                rec["returned"] = True
        except Exception as e:
            rec["exc"] = _exc(e)
        return [rec]


def _shares(be, X, Y):
    """do two PauliList-like objects share a buffer?"""
    try:
        if be.name == "py":
            import numpy
            return bool(numpy.shares_memory(X.gs, Y.gs) or numpy.shares_memory(X.ps, Y.ps))
        return X.gs.data_ptr() == Y.gs.data_ptr() or X.ps.data_ptr() == Y.ps.data_ptr()
    except Exception:
        return False


PROP = C04
