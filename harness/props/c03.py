"""C03  Applying a Clifford map is a unitary conjugation (phase-exact homomorphism)."""
from ..core import Prop
from .. import tlc, enum
from .c02 import mask_of, ins_to_state, _exc


def read_maps(path):
    maps = []
    with open(path) as f:
        for line in f:
            e = tlc.parse_tla_value(line)
            if e[0] == "M":
                maps.append((e[1], e[2]))
    # the emitted lines are sorted (harness/tlc.py): lexicographic neighbours share rows and signs, and an arithmetic
    # stride through them can miss whole sign patterns -- fixed shuffle, so that position carries no structure
    import random
    random.Random(20261004).shuffle(maps)
    return maps


def group_elements(e, r):
    """signed elements of the stabilizer group of to_state(m, r) from a RotSim line: images of the Z-strings
    supported on qubits > r (computed by TLC)"""
    out = []
    for z, img in e[5]:
        if all(z[q] == 0 for q in range(r)) and any(z[:-1]):
            out.append(img)
    return out


class C03(Prop):
    id = "C03"
    trace_module = "TraceClifford"
    trace_cfg = "TraceClifford.cfg"
    suite_family = ('clifford', ('transform',))
    backends = ("py", "torch")
    chunk = 1500
    assumptions = [
        "Apply is the homomorphic extension written with Mul only; TLC checks homomorphism / preservation clauses in all 24 / 11520 reachable maps",
        "every edge of the walk is a rotation = exact matrix conjugation (grounded under C02)",
        "exhaustive over the whole Clifford group x whole Pauli group for N<=2 (thorough; quick subsamples N=2 maps by VERIF_SEED); masks/embedding on N=3; N=3..5 maps from TLC -simulate walks",
    ]
    rule = "one record per transform_by / pauli_transform / embed / pauli_combine / ps0 call with a whole list of operators; distinct = distinct record lines"

    def models(self):
        self.maps = {}
        for n in (1, 2):
            pf = "%s/maps_n%d.txt" % (self.wd, n)
            self.model("MC_Clifford", "MC_Clifford_c03_n%d.cfg" % n, name="group_n%d" % n, print_file=pf,
                       expect_distinct=(24 if n == 1 else 11520))
            self.maps[n] = [m for m, _ in read_maps(pf)]
            if len(self.maps[n]) != (24 if n == 1 else 11520):
                raise tlc.MachineryError("C03: %d maps emitted for N=%d" % (len(self.maps[n]), n))
        self.big = []
        nb = 60 if self.tier == "thorough" else 8
        for n in (3, 4, 5):
            r = self.model("MC_RotSim", "MC_RotSim_n%d.cfg" % n, name="rotsim_n%d" % n, workers=1, simulate="num=%d" % nb,
                           depth=12, seed=self.seed + 10 + n, collect=True)
            for e in r.printed:
                if e[0] == "S" and e[1] % 4 == 0:
                    self.big.append((n, e[3]))
        self.wide = []
        r = self.model("MC_RotSim", "MC_RotSim_n66.cfg", name="rotsim_n66", workers=1, simulate="num=1", depth=8,
                       seed=self.seed + 66, collect=True, timeout=1500)
        for e in r.printed:
            if e[0] == "S" and e[1] in (4, 8):
                self.wide.append((66, e[3]))

    def scenarios(self):
        thorough = self.tier == "thorough"
        rng = self.rng
        for n in (1, 2):
            allp = enum.paulis(n)
            maps = self.maps[n]
            pick = maps if (n == 1 or thorough) else rng.sample(maps, 2500)
            for i, m in enumerate(pick):
                yield {"k": "tf", "kind": "list", "m": m, "ins": allp, "pkg": "py"}
                if i % 11 == 0:
                    # element types of the user's arrays (operand and / or map); a refusal is accepted
                    DTS = (("uint8", "int64"), ("int8", "int32"), ("uint64", "uint8"), ("float64", "int64"), ("uint8", "uint8"), ("int32", "float64"))
                    yield {"k": "tf", "kind": "list", "m": m, "ins": allp, "dt": list(DTS[(i // 11) % 6]), "mdt": (i // 11) % 3 == 0, "pkg": "py"}
                if i % 17 == 0:
                    yield {"k": "tf", "kind": "list", "m": m, "ins": allp[::2], "mro": True, "pkg": "py"}
                if i % 13 == 0:
                    yield {"k": "tf", "kind": "livemap", "m": m, "ins": allp[(i // 13) % 3::3],
                           "how": ("uint8", "int32", "float64", "fortran", "step", "plain")[(i // 13) % 6], "pkg": "py"}
                if i % 9 == 0:
                    # operand and map are one and the same object (squaring a map in place)
                    yield {"k": "tf", "kind": "selfmap", "m": m, "ins": m}
                if i % 50 == 0:
                    yield {"k": "tf", "kind": "list", "m": m, "ins": [], "n": n}
                    yield {"k": "tf", "kind": "list", "m": m, "ins": [allp[(i * 13 + 5) % len(allp)]]}
                if i % 7 == 0:
                    # operands / maps in other memory layouts (views, column-major arrays, results of inverse())
                    yield {"k": "tf", "kind": ("list", "poly")[(i // 7) % 2], "m": m, "ins": allp,
                           "layout": (None, "rev", "step", "fortran", "cols")[(i // 7) % 5], "mlayout": ("inverse", None, "fortran", "step", None)[(i // 7) % 5]}
                if i % 10 == 0:
                    yield {"k": "tf", "kind": "kernel", "m": m, "ins": allp, "pkg": "py"}
                    yield {"k": "tf", "kind": "poly", "m": m, "ins": allp, "pkg": "py"}
                    yield {"k": "tf", "kind": "state", "m": m, "ins": maps[(7 * i + 3) % len(maps)], "r": i % (n + 1), "pkg": "py"}
                    yield {"k": "tf", "kind": "pauli", "m": m, "ins": allp[i % 5::11], "pkg": "py"}
            tpick = maps if n == 1 else rng.sample(maps, 1500 if thorough else 150)
            for i, m in enumerate(tpick):
                yield {"k": "tf", "kind": "list", "m": m, "ins": allp if n == 1 else allp[i % 4::4], "pkg": "torch"}
                if i % 10 == 0:
                    yield {"k": "tf", "kind": "kernel", "m": m, "ins": allp[::4], "pkg": "torch"}
                    yield {"k": "tf", "kind": "poly", "m": m, "ins": allp[::4], "pkg": "torch"}
        # masks / embeddings in a 3-qubit register
        allp3 = enum.paulis(3)
        sub3 = allp3[::3]
        for qs in enum.subsets(3, sizes=(1, 2)):
            src = self.maps[len(qs)]
            pick = src if len(qs) == 1 else rng.sample(src, 600 if thorough else 60)
            for i, ms in enumerate(pick):
                yield {"k": "tf", "kind": "list", "m": ms, "qs": qs, "ins": allp3 if len(qs) == 1 else sub3, "pkg": "py"}
                yield {"k": "embed", "ms": ms, "qs": qs, "n": 3, "probe": sub3[i % 7::7]}
                if i % 6 == 0:
                    yield {"k": "tf", "kind": "list", "m": ms, "qs": qs, "ins": sub3[::2], "pkg": "torch"}
                    yield {"k": "tf", "kind": "poly", "m": ms, "qs": qs, "ins": sub3[1::2], "pkg": "py"}
                    yield {"k": "tf", "kind": "pauli", "m": ms, "qs": qs, "ins": sub3[i % 9::29], "pkg": "py"}
        # N=2 single-qubit masks, every one-qubit map
        for qs in ([1], [2]):
            for ms in self.maps[1]:
                yield {"k": "tf", "kind": "list", "m": ms, "qs": qs, "ins": enum.paulis(2)}
                yield {"k": "embed", "ms": ms, "qs": qs, "n": 2, "probe": enum.paulis(2)[::5]}
        # larger maps from the simulated walks, random operators
        for n, m in self.big:
            ins = [[rng.randrange(4) for _ in range(n)] + [rng.randrange(4)] for _ in range(40)]
            yield {"k": "tf", "kind": "list", "m": m, "ins": ins}
        # one entangling map across the 64-bit word boundary (66 qubits, from a TLC walk): dense and sparse operators
        for n, m in self.big:
            yield {"k": "tf", "kind": "selfmap", "m": m, "ins": m}
        for n, m in self.wide:
            ins = [[rng.randrange(4) if (t % 2 == 0 or rng.random() < 0.1) else 0 for _ in range(n)] + [rng.randrange(4)] for t in range(40)]
            for w in ins[:8]:
                w[n - 1] = w[n - 1] or 1
            yield {"k": "tf", "kind": "list", "m": m, "ins": ins}
            yield {"k": "tf", "kind": "poly", "m": m, "ins": ins[:12]}
            yield {"k": "tf", "kind": "list", "m": m, "ins": ins[:10], "mlayout": "inverse"}
            yield {"k": "tf", "kind": "kernel", "m": m, "ins": ins, "pkg": "py"}
        # one wide register: N = 40, a product of random one-qubit Cliffords (with two-qubit blocks in thorough),
        # applied to > 1024 low-weight operators with all phases (lists longer / registers wider than any fast path
        # or integer-packing threshold is likely to assume)
        n = 40
        m40 = []
        for q in range(n):
            m1 = rng.choice(self.maps[1])
            for row in m1:
                w = [0] * n + [row[-1]]
                w[q] = row[0]
                m40.append(w)
        ops40 = []
        for i in range(n):
            for l in (1, 2, 3):
                w = [0] * n + [rng.randrange(4)]
                w[i] = l
                ops40.append(w)
            for j in range(i + 1, n):
                w = [0] * n + [rng.randrange(4)]
                w[i], w[j] = rng.randrange(1, 4), rng.randrange(1, 4)
                ops40.append(w)
        for _ in range(500):
            w = [0] * n + [rng.randrange(4)]
            for q in rng.sample(range(n), 3):
                w[q] = rng.randrange(1, 4)
            ops40.append(w)
        rng.shuffle(ops40)
        ops40 = ops40[:1250] + [[rng.randrange(4) for _ in range(n)] + [rng.randrange(4)] for _ in range(60)]
        yield {"k": "tf", "kind": "list", "m": m40, "ins": ops40, "pkg": "py"}
        yield {"k": "tf", "kind": "poly", "m": m40, "ins": ops40[:1100], "pkg": "py"}
        yield {"k": "tf", "kind": "list", "m": m40, "ins": ops40[:200], "pkg": "torch"}
        # kernels: pauli_combine with arbitrary selection matrices, ps0
        for n in (1, 2, 3):
            allp = enum.paulis(n)
            for t in range(20 if thorough else 6):
                ins = rng.sample(allp, min(len(allp), 5))
                c = [[rng.randrange(2) for _ in ins] for _ in range(8)]
                yield {"k": "combine", "n": n, "c": c, "ins": ins}
            yield {"k": "ps0", "ins": allp}

    def execute(self, scn, be):
        k = scn["k"]
        if k == "tf":
            if scn["kind"] == "livemap":
                return self._livemap(scn, be)
            r_ = self._tf(scn, be)
            return [r_] if r_ is not None else []
        if k == "embed":
            return [self._embed(scn, be)]
        if k == "combine":
            rec = {"op": "combine", "n": scn["n"], "c": scn["c"], "ins": scn["ins"]}
            try:
                L = be.plist(scn["ins"])
                gs, ps = be.utils.pauli_combine(be.imat(scn["c"]), L.gs, L.ps)
                rec["outs"] = be.p_rows(gs, ps)
            except Exception as e:
                rec["exc"] = _exc(e)
            return [rec]
        if k == "ps0":
            rec = {"op": "ps0", "ins": scn["ins"]}
            try:
                rec["vals"] = be.p_ints(be.utils.ps0(be.plist(scn["ins"]).gs))
            except Exception as e:
                rec["exc"] = _exc(e)
            return [rec]
        raise ValueError(k)

    def _livemap(self, scn, be):
        """the same map object is applied, changed in place (rotation, sign flip written into ps), and applied again; every
        application is judged against the map as it is at that moment (read back from the object)"""
        out = []
        ins = scn["ins"]
        n = len(ins[0]) - 1
        try:
            M = be.cmap(scn["m"])
            how = scn["how"]
            if how in ("uint8", "int32", "float64"):
                M = be.retype(M, how, None)
            elif how in ("fortran", "step"):
                M = be.relayout(M, how)
            for t in range(3):
                rec = {"op": "transform", "kind": "list", "m": be.p_list(M), "ins": ins, "live": t, "how": how}
                L = be.plist(ins)
                try:
                    L.transform_by(M)
                except Exception:
                    if how == "plain":
                        raise
                    return out               # an element type the library refuses
                rec["outs"] = be.p_list(L)
                rec["m1"] = be.p_list(M)
                out.append(rec)
                if t == 0:
                    M.rotate_by(be.pauli([2] * n + [0]))
                else:
                    M.ps[0] = (M.ps[0] + 2) % 4
        except Exception as e:
            out.append({"op": "transform", "kind": "list", "m": scn["m"], "ins": ins, "exc": _exc(e)})
        return out

    def _tf(self, scn, be):
        kind, m, ins = scn["kind"], scn["m"], scn["ins"]
        rec = {"op": "transform", "kind": kind, "m": m, "ins": ins}
        qs = scn.get("qs")
        if qs:
            rec["qs"] = qs
        try:
            M = be.cmap(m)
            lay, mlay = scn.get("layout"), scn.get("mlayout")
            if mlay == "inverse":
                M = M.inverse().inverse()          # the same map, in whatever layout inverse() returns
                rec["m"] = be.p_list(M)
            elif mlay:
                M = be.relayout(M, mlay)
            if scn.get("mro"):
                be.freeze(M)                 # the map argument is only read
                rec["mro"] = True
            if lay or mlay:
                rec["layout"] = [lay or "", mlay or ""]
            n = scn["n"] if "n" in scn else len(ins[0]) - 1
            mk = mask_of(be, qs, n) if qs else None
            if kind == "list" and scn.get("dt"):
                rec["dt"] = scn["dt"]
                try:
                    L = be.retype(be.plist(ins, n), *scn["dt"])
                    if scn.get("mdt"):
                        M = be.retype(M, *scn["dt"])
                    L.transform_by(M, mk) if qs else L.transform_by(M)
                    rec["outs"] = be.p_list(L)
                except Exception:
                    return None
                return rec
            if kind == "selfmap":
                M.transform_by(M)
                rec["outs"] = be.p_list(M)
                return rec
            if kind == "list":
                L = be.plist(ins, n)
                if lay:
                    L = be.relayout(L, lay)
                L.transform_by(M, mk) if qs else L.transform_by(M)
                rec["outs"] = be.p_list(L)
            elif kind == "kernel":
                L = be.plist(ins)
                gs, ps = be.utils.pauli_transform(L.gs, L.ps, M.gs, M.ps)
                rec["outs"] = be.p_rows(gs, ps)
            elif kind == "poly":
                cs = [(j % 5 + 1) * 0.25 - 1j * (j % 4) for j in range(len(ins))]
                L = be.poly(ins, cs)
                if lay:
                    L = be.relayout(L, lay)
                L.transform_by(M, mk) if qs else L.transform_by(M)
                rec["outs"] = be.p_list(L)
                rec["csok"] = [complex(c) for c in be.tolist(L.cs)] == [complex(c) for c in cs]
            elif kind == "state":
                rows = ins_to_state(ins)
                rec["ins"] = rows
                S = be.state(rows, scn["r"])
                rec["r0"] = scn["r"]
                S.transform_by(M)
                rec["outs"] = be.p_list(S)
                rec["r1"] = be.p_state(S)["r"]
            elif kind == "pauli":
                outs = []
                for w in ins:
                    P = be.pauli(w)
                    P.transform_by(M, mk) if qs else P.transform_by(M)
                    outs.append(be.p_pauli(P))
                rec["outs"] = outs
            rec["m1"] = be.p_list(M)
        except Exception as e:
            rec["exc"] = _exc(e)
        return rec

    def _embed(self, scn, be):
        rec = {"op": "embed", "ms": scn["ms"], "qs": scn["qs"], "n": scn["n"], "probe": scn["probe"]}
        try:
            big = be.stabilizer.identity_map(scn["n"])
            big.embed(be.cmap(scn["ms"]), mask_of(be, scn["qs"], scn["n"]))
            rec["ret"] = be.p_list(big)
        except Exception as e:
            rec["exc"] = _exc(e)
        return rec


PROP = C03
