"""C06  Measurement follows the Born rule and the projection postulate."""
from ..core import Prop
from .. import tlc, enum
from ..backend import _as_int
from .c02 import ins_to_state, embed_tableau, _exc
from .c03 import read_maps


def measure_entries(be, rows, r, obs_sets, base_seed, state_arg=False):
    """call measure() on fresh copies of the tableau under different coin schedules until every
    outcome vector announced by the reported probability has been seen"""
    entries, branches = [], []
    for oi, obs in enumerate(obs_sets):
        seen = {}
        t = -1
        while True:
            t += 1
            S = be.state(rows, r)
            if state_arg:
                O = be.state(obs["rows"], obs["r"])
            else:
                O = be.plist(obs)
            be.seed(base_seed + 131 * oi + t)
            out, l2p = S.measure(O)
            key = tuple(be.p_ints(out))
            li = _as_int(l2p)
            if key not in seen:
                e = {"obs": obs_list(obs) if state_arg else obs, "out": list(key), "l2p": 99 if li is None else li,
                     "post": be.p_state(S)}
                out2, l2p2 = S.measure(O)
                l2 = _as_int(l2p2)
                e["again"] = {"out": be.p_ints(out2), "l2p": 99 if l2 is None else l2, "post": be.p_state(S)}
                seen[key] = e
                entries.append(e)
            want = 2 ** (-li) if (li is not None and -8 <= li <= 0) else 1
            # every branch has probability 1/want: after 40*want schedules a missing branch has
            # probability < want*exp(-40) -- a coin that cannot come up is reported by BranchesOK
            if len(seen) >= want or t + 1 >= 40 * want:
                break
        branches.append({"obs": obs_list(obs) if state_arg else obs, "outs": [list(k) for k in seen]})
    return entries, branches


def obs_list(st):
    n = len(st["rows"]) // 2
    return st["rows"][st["r"]:n]


class C06(Prop):
    id = "C06"
    trace_module = "TraceStab"
    trace_cfg = "TraceStab.cfg"
    suite_family = ('stab', ('steps',))
    backends = ("py",)
    chunk = 400
    assumptions = [
        "SemMeasure (signed-group semantics) grounded by TLC in density matrices: (1+O)rho(1+O) = 4 p rho' for all 91 N=2 states x 32 observables x 2 outcomes",
        "coin schedules enumerated by seeding numba's generator from outside (no hooks); every outcome vector of non-zero probability must be observed within 64 schedules",
        "pre-states: the complete valid tableau space for N<=2 (to_state(m, r) over all 24/11520 maps, r=0..N) in thorough, a VERIF_SEED-chosen subset in quick; N=3,4 from TLC -simulate walks",
    ]
    rule = ("one record per pre-tableau carrying one entry per (observable list, outcome vector) observed; "
            "distinct = distinct record lines; non-trivial = records with at least one undetermined outcome are counted separately in coverage.undetermined_entries")

    def models(self):
        self.cpairs = {}
        for n in (1, 2):
            r = self.model("MC_StabSem", "MC_StabSem_c06_n%d.cfg" % n, name="stabsem_n%d" % n, collect=True,
                           expect_distinct=(7 if n == 1 else 91))
            self.cpairs[n] = [(e[1], e[2]) for e in r.printed if e[0] == "CP"]
        # L2: the transcribed kernels refine the semantics on the complete tableau space (48 / 34560 tableaux)
        self.model("MC_Tableau", "MC_Tableau_n1.cfg", name="tableau_impl_n1", expect_distinct=48)
        self.model("MC_Tableau", "MC_Tableau_n2.cfg", name="tableau_impl_n2", expect_distinct=34560, timeout=3000)
        self.maps = {}
        for n in (1, 2):
            pf = "%s/maps_n%d.txt" % (self.wd, n)
            self.model("MC_Clifford", "MC_Clifford_maps_n%d.cfg" % n, name="maps_n%d" % n, print_file=pf,
                       expect_distinct=(24 if n == 1 else 11520))
            self.maps[n] = [m for m, _ in read_maps(pf)]
        self.big = []
        nb = 40 if self.tier == "thorough" else 6
        for n in (3, 4):
            r = self.model("MC_RotSim", "MC_RotSim_n%d.cfg" % n, name="rotsim_n%d" % n, workers=1, simulate="num=%d" % nb,
                           depth=9, seed=self.seed + 30 + n, collect=True)
            for e in r.printed:
                if e[0] == "S" and e[1] % 3 == 0:
                    self.big.append((n, e[3], e))

    def scenarios(self):
        thorough = self.tier == "thorough"
        rng = self.rng
        sid = 0
        self.cset = {n: {(tuple(a), tuple(b)) for a, b in self.cpairs[n]} for n in (1, 2)}
        for n in (1, 2):
            singles = [[g] for g in enum.herm(n)]
            tabs = [(m, r) for m in self.maps[n] for r in range(n + 1)]
            pick = tabs if (n == 1 or thorough) else rng.sample(tabs, 1500)
            herm = enum.herm(n)
            for i, (m, r) in enumerate(pick):
                sid += 1
                yield {"k": "m1", "rows": ins_to_state(m), "r": r, "obs": singles, "seed": self.seed * 7919 + sid * 64}
                if i % (1 if n == 1 else (6 if thorough else 10)) == 0:
                    # lists: ordered pairs / triples of commuting observables (commutation is irrelevant to the
                    # sequential semantics, so arbitrary lists are used as well)
                    lists = []
                    cset = self.cset[n]
                    for _ in range(12):
                        a, b = rng.choice(self.cpairs[n])
                        l = [a, b]
                        c = rng.choice(herm)
                        if (tuple(a), tuple(c)) in cset and (tuple(b), tuple(c)) in cset and rng.random() < 0.5:
                            l.append(c)
                        lists.append(l)
                    sid += 1
                    yield {"k": "m1", "rows": ins_to_state(m), "r": r, "obs": lists, "seed": self.seed * 7919 + sid * 64}
                if i % 25 == 0:
                    m2, r2 = rng.choice(self.maps[n]), (i // 25) % (n + 1)      # (drawn, not strided: a stride over the sorted
                    # list of maps happened to pick only arguments whose first two rows carry equal signs)
                    sid += 1
                    yield {"k": "mstate", "rows": ins_to_state(m), "r": r, "arg": {"rows": ins_to_state(m2), "r": r2},
                           "seed": self.seed * 7919 + sid * 64}
        from .c03 import group_elements
        for bi, (n, m, e) in enumerate(self.big):
            for r in range(n + 1):
                # determined outcomes: signed elements of the state's own group (products of up to n generators)
                ge = group_elements(e, r)
                if ge:
                    els = [w[:-1] + [(w[-1] + 2 * rng.randrange(2)) % 4] for w in rng.sample(ge, min(len(ge), 6))]
                    sid += 1
                    yield {"k": "m1", "rows": ins_to_state(m), "r": r, "obs": [[x] for x in els] + [l for l in (els[:3], els[1:5]) if len(l) >= 2], "seed": self.seed * 7919 + sid * 64}
                herm_s = [[rng.randrange(4) for _ in range(n)] + [rng.choice((0, 2))] for _ in range(10)]
                # commuting lists: signed subsets of the stabilizer half of another valid tableau
                ob = self.big[(bi * 7 + 3) % len(self.big)]
                other = ins_to_state(ob[1]) if ob[0] == n else ins_to_state(m)
                stab = [w[:-1] + [rng.choice((0, 2))] for w in other[:n]]
                lists = [[h] for h in herm_s] + [rng.sample(stab, rng.randrange(2, n + 1)) for _ in range(4)]
                sid += 1
                yield {"k": "m1", "rows": ins_to_state(m), "r": r, "obs": lists, "seed": self.seed * 7919 + sid * 64}

        # a few of the same calls in an interpreter started with -O (assert statements stripped)
        opt = []
        for j in range(8):
            m = rng.choice(self.maps[2])
            opt.append({"k": "m1", "rows": ins_to_state(m), "r": j % 3, "obs": [[h] for h in enum.herm(2)[j::8]] + [list(rng.choice(self.cpairs[2]))], "seed": self.seed + 900 + j})
        yield {"k": "optpass", "scns": opt, "pkg": "py"}
        # registers across the 64-bit word boundary: an entangled block on the last qubits of a 66 / 70-qubit register that
        # is maximally mixed elsewhere; observables on the high qubits (logical operators of the padding, elements and
        # non-elements of the block's group, dependent lists)
        for bi, (k, m, e) in enumerate(self.big[:(12 if thorough else 4)]):
            nn = (66, 70)[bi % 2] + (k - 3)
            rs = bi % (k + 1)
            rows, r = embed_tableau(ins_to_state(m), rs, nn)
            pad = nn - k

            def one(q, l, ph=0):
                w = [0] * nn + [ph]
                w[q - 1] = l
                return w
            blk = [w for w in rows[pad + rs:nn]]
            # (padding qubits pad-2, pad-1, pad: 61..63 / 65..67 -- both sides of the word boundary over the two sizes)
            singles = [[one(pad, 3)], [one(pad - 1, 1, 2)], [one(pad - 2, 2)]] + [[w[:-1] + [(w[-1] + 2 * rng.randrange(2)) % 4]] for w in blk[:2]]
            dense = [rng.randrange(4) for _ in range(nn)] + [rng.choice((0, 2))]
            lists = [[one(pad, 3), one(pad, 3, 2)], [one(pad - 1, 1), one(pad, 3), one(pad - 1, 1, 2)], [dense]]
            if blk:
                lists.append([one(pad, 3), blk[0], one(pad, 3)])
            sid += 1
            yield {"k": "m1", "rows": rows, "r": r, "obs": singles + lists, "seed": self.seed * 7919 + sid * 64, "pkg": "py"}

    def execute(self, scn, be):
        if scn["k"] == "optpass":
            from .. import optrun
            return optrun.run(self.id, be.name, scn["scns"], self.wd)
        rec = {"op": "measure1", "pre": {"rows": scn["rows"], "r": scn["r"]}}
        try:
            if scn["k"] == "m1":
                rec["entries"], rec["branches"] = measure_entries(be, scn["rows"], scn["r"], scn["obs"], scn["seed"])
            else:
                rec["entries"], rec["branches"] = measure_entries(be, scn["rows"], scn["r"], [scn["arg"]], scn["seed"], state_arg=True)
                rec["via"] = "state"
        except Exception as e:
            rec["exc"] = _exc(e)
        return [rec]

    def post(self, tw):
        # measured, for the evidence: how many observed (observable list, outcome) entries were undetermined / determined
        import json
        und = det = 0
        for f in tw.files:
            for line in open(f):
                for e in json.loads(line).get("entries", []):
                    if e.get("l2p", 0) < 0:
                        und += 1
                    else:
                        det += 1
        self.notes["undetermined_entries"] = und
        self.notes["determined_entries"] = det
        return []


PROP = C06
