"""C02  Clifford rotation by a Pauli generator is conjugation by exp(i*pi/4*G)."""
from ..core import Prop
from .. import tlc, enum


def _exc(e):
    return type(e).__name__


def mask_of(be, qs, n):
    return be.bvec([(j + 1) in qs for j in range(n)])


class C02(Prop):
    id = "C02"
    trace_module = "TraceClifford"
    trace_cfg = "TraceClifford.cfg"
    suite_family = ('clifford', ('rot',))
    backends = ("py", "torch")
    chunk = 4000
    assumptions = [
        "Rot(G,P) grounded by TLC as (1-iG)P(1+iG) = 2 Rot(G,P) in Gaussian-integer matrices for N<=2",
        "bits<->letters projection; masks are 0-based boolean vectors built by the harness from 1-based qubit lists",
        "exhaustive for N<=2 (all generators x all operators, all object kinds) and masked N=3; N=3..5 walks sampled by TLC -simulate",
    ]
    rule = ("one record per rotate_by / clifford_rotate / clifford_rotation_map call (a whole list of operators per call); "
            "map and state kinds follow the edges of the TLC Clifford-group walk; distinct = distinct record lines")

    def models(self):
        self.edges = {}
        for n in (1, 2):
            pf = "%s/edges_n%d.txt" % (self.wd, n)
            r = self.model("MC_Clifford", "MC_Clifford_c02_n%d.cfg" % n, name="walk_n%d" % n, print_file=pf,
                           expect_distinct=(24 if n == 1 else 11520))
            self.edges[n] = pf
        self.walks = []
        nb = 150 if self.tier == "thorough" else 12
        for n in (3, 4, 5):
            r = self.model("MC_RotSim", "MC_RotSim_n%d.cfg" % n, name="rotsim_n%d" % n, workers=1, simulate="num=%d" % nb,
                           depth=16, seed=self.seed + n, collect=True)
            cur = None
            for e in r.printed:
                if e[0] != "S":
                    continue
                if e[1] == 1:
                    cur = {"k": "rotseq", "n": n, "gens": [], "final": None}
                    self.walks.append(cur)
                cur["gens"].append(e[2])
                cur["final"] = e[3]

    def scenarios(self):
        thorough = self.tier == "thorough"
        # (a) all generators x all operators, unmasked (N<=2) -- every object kind
        for n in (1, 2):
            allp = enum.paulis(n)
            for g in enum.herm(n):
                for kind in ("list", "poly", "pauli", "kernel"):
                    yield {"k": "rot", "kind": kind, "g": g, "ins": allp}
                yield {"k": "rotmap", "g": g}
        # (a2) the same on operands in other memory layouts (strided / reversed views, column-major arrays, maps
        # returned by inverse()): what slicing and the library's own constructors hand to users
        LAY = ("rev", "step", "fortran", "cols")
        for n in (1, 2):
            allp = enum.paulis(n)
            for j, g in enumerate(enum.herm(n)):
                for kind in ("list", "poly"):
                    yield {"k": "rot", "kind": kind, "g": g, "ins": allp, "layout": LAY[(j + len(kind)) % 4]}
                if n == 2:
                    yield {"k": "rot", "kind": "list", "g": g[:1] + g[-1:], "qs": [1 + j % 2], "ins": allp, "layout": LAY[j % 4]}
        # (a4) the generator is an element of the list that is being rotated (lst[j]: a view of the list's own arrays),
        # or the very object being rotated
        for n in (1, 2, 3):
            allh = enum.herm(n, identity=False)
            for t in range(12):
                ins = [allh[(5 * t + 3 * j) % len(allh)] if j % 2 == 0 else enum.paulis(n)[(11 * t + 7 * j) % (4 ** n * 4)] for j in range(5)]
                yield {"k": "rot", "kind": "selfgen", "j": 2 * (t % 3), "g": ins[2 * (t % 3)], "ins": ins}
            for g in allh[::3]:
                yield {"k": "rot", "kind": "selfpauli", "g": g, "ins": [g]}
        # (a5) element types of the user's arrays (bits as uint8 / int8 / uint64 / float64 ..., phases likewise); a refusal is
        # accepted, a returned result must be the rotation
        DTS = (("uint8", "int64"), ("int8", "int32"), ("uint64", "uint8"), ("float64", "int64"), ("uint8", "uint8"), ("int32", "float64"))
        for n in (1, 2):
            allp = enum.paulis(n)
            for j, g in enumerate(enum.herm(n)):
                yield {"k": "rot", "kind": "list", "g": g, "ins": allp, "dt": list(DTS[j % 6]), "pkg": "py"}
                if n == 2 and j % 4 == 0:
                    yield {"k": "rot", "kind": "list", "g": g[:1] + g[-1:], "qs": [1 + j % 2], "ins": allp, "dt": list(DTS[(j + 1) % 6]), "pkg": "py"}
                    yield {"k": "rot", "kind": "list", "g": g, "ins": allp, "dt": list(DTS[(j + 2) % 6]), "gdt": True, "pkg": "py"}
        for n in (1, 2):
            for j, g in enumerate(enum.herm(n)[::3]):
                yield {"k": "rot", "kind": ("list", "poly", "pauli")[j % 3], "g": g, "ins": enum.paulis(n)[j % 2::2], "gro": True, "pkg": "py"}
        # (a3) lists of length 0 and 1
        for n in (1, 2, 3):
            for j, g in enumerate(enum.herm(n)[::5]):
                yield {"k": "rot", "kind": "list", "g": g, "ins": [], "n": n}
                yield {"k": "rot", "kind": "list", "g": g, "ins": [enum.paulis(n)[(7 * j + 3) % (4 ** n * 4)]]}
                if n >= 2:
                    yield {"k": "rot", "kind": "list", "g": g[:1] + g[-1:], "qs": [n], "ins": [], "n": n}
        # (b) masked, N = 3 (and N = 2 single-qubit masks)
        for n in (2, 3):
            allp = enum.paulis(n)
            for qs in enum.subsets(n):
                if n == 2 and len(qs) == 2:
                    continue
                for g in enum.herm(len(qs)):
                    yield {"k": "rot", "kind": "list", "g": g, "qs": qs, "ins": allp}
                    if g[-1] == 0 and (thorough or len(qs) == 1):
                        yield {"k": "rot", "kind": "poly", "g": g, "qs": qs, "ins": allp}
                        yield {"k": "rot", "kind": "pauli", "g": g, "qs": qs, "ins": allp[::7]}
        # (c) maps and states along the edges of the group walk
        for n in (1, 2):
            edges = []
            with open(self.edges[n]) as f:
                for line in f:
                    e = tlc.parse_tla_value(line)
                    if e[0] == "E":
                        edges.append(e)
            if n == 2 and not thorough:
                edges = self.rng.sample(edges, 4000)
            for i, e in enumerate(edges):
                pk = None if (n == 1 or thorough or i % 8 == 0) else "py"
                s = {"k": "rot", "kind": "map", "g": e[2], "ins": e[1], "exp": e[3]}
                if pk:
                    s["pkg"] = pk
                yield s
                if i % 3 == 0:
                    yield {"k": "rot", "kind": "state", "g": e[2], "ins": e[1], "r": (i // 3) % (n + 1), "pkg": "py"}
                if i % 5 == 0:
                    yield dict(s, layout=("inverse", "fortran", "step")[(i // 5) % 3])
        # (c2) one wide register: N = 40, > 1024 low-weight operators rotated by dense and sparse generators
        rng = self.rng
        n = 40
        ops40 = []
        for i in range(n):
            for l in (1, 2, 3):
                w = [0] * n + [rng.randrange(4)]
                w[i] = l
                ops40.append(w)
            for j in range(i + 1, n):
                w = [0] * n + [rng.randrange(4)]
                w[i], w[j] = rng.randrange(1, 4), rng.randrange(1, 4)
                ops40.append(w)
        for _ in range(500):
            w = [0] * n + [rng.randrange(4)]
            for q in rng.sample(range(n), 3):
                w[q] = rng.randrange(1, 4)
            ops40.append(w)
        rng.shuffle(ops40)
        ops40 = ops40[:1250]
        for t in range(3):
            g = [rng.randrange(4) if (t == 0 or rng.random() < 0.15) else 0 for _ in range(n)] + [rng.choice((0, 2))]
            g[35] = g[35] or 2
            yield {"k": "rot", "kind": "list", "g": g, "ins": ops40, "pkg": "py"}
            yield {"k": "rot", "kind": "list", "g": g, "ins": ops40[:150], "pkg": "torch"}
        # (c3) registers across the 64-bit word boundary: lists, polynomials and the identity map, masks on the high qubits
        for n in (64, 65, 70):
            ops = [[rng.randrange(4) if (t % 2 == 0 or rng.random() < 0.1) else 0 for _ in range(n)] + [rng.randrange(4)] for t in range(30)]
            for w in ops[:10]:
                w[n - 1] = w[n - 1] or 2
            for t in range(4):
                g = [rng.randrange(4) if (t % 2 == 0 or rng.random() < 0.1) else 0 for _ in range(n)] + [rng.choice((0, 2))]
                g[n - 1] = g[n - 1] or 1
                g[n - 2] = g[n - 2] or 3
                yield {"k": "rot", "kind": "list", "g": g, "ins": ops}
                yield {"k": "rot", "kind": "poly", "g": g, "ins": ops[:12]}
                yield {"k": "rot", "kind": "map", "g": g, "ins": enum.idmap(n)}
                qs = sorted(rng.sample(range(n - 6, n + 1), 3))
                yield {"k": "rot", "kind": "list", "g": [g[q - 1] for q in qs] + [g[-1]], "qs": qs, "ins": ops}
        for g in ([1, 0, 0, 0, 0, 1, 0], [1, 0, 3, 0, 0, 1, 0], [1, 2, 0, 0, 0, 1, 0], [1, 0, 0, 0, 0, 1, 0]):
            yield {"k": "rotmap", "g": g, "printopts": True, "pkg": "py"}
        # (c4) a very wide register (520 qubits: arrays longer than numpy's print threshold of 1000 entries): rotation maps
        # of generators that agree on their first and last entries, one after the other in the same process
        n = 520
        for q, l in ((250, 1), (250, 3), (251, 2), (250, 1)):
            g = [0] * n + [0]
            g[q] = l
            yield {"k": "rotmap", "g": g, "pkg": "py"}
        # (d) rotation sequences with the inverse sequence appended (N = 3..5)
        for w in self.walks:
            yield w

    # ------------------------------------------------------------------
    def execute(self, scn, be):
        k = scn["k"]
        if k == "rot":
            r = self._rot(scn, be)
            return [r] if r is not None else []
        if k == "rotmap":
            return [self._rotmap(scn, be)]
        if k == "rotseq":
            return self._rotseq(scn, be)
        raise ValueError(k)

    def _rot(self, scn, be):
        kind, g, ins = scn["kind"], scn["g"], scn["ins"]
        rec = {"op": "rot", "kind": kind, "g": g, "ins": ins}
        n = scn["n"] if "n" in scn else len(ins[0]) - 1
        qs = scn.get("qs")
        if qs:
            rec["qs"] = qs
        try:
            G = be.pauli(g)
            if scn.get("gro"):
                be.freeze(G)                 # the generator is only read
                rec["gro"] = True
            mk = mask_of(be, qs, n) if qs else None
            lay = scn.get("layout")
            if lay:
                rec["layout"] = lay
            if kind == "selfgen":
                L = be.plist(ins, n)
                L.rotate_by(L[scn["j"]])
                rec["kind"] = "list"
                rec["outs"] = be.p_list(L)
                return rec
            if kind == "selfpauli":
                P = be.pauli(g)
                P.rotate_by(P)
                rec["kind"] = "pauli"
                rec["outs"] = [be.p_pauli(P)]
                return rec
            if kind == "list" and scn.get("dt"):
                rec["dt"] = scn["dt"]
                try:
                    L = be.retype(be.plist(ins, n), *scn["dt"])
                    if scn.get("gdt"):
                        import numpy
                        G = be.paulialg.Pauli(G.g.astype(getattr(numpy, scn["dt"][0])), G.p)
                    L.rotate_by(G, mk) if qs else L.rotate_by(G)
                    rec["outs"] = be.p_list(L)
                except Exception:
                    return None
                return rec
            if kind == "list":
                L = be.plist(ins, n)
                if lay:
                    L = be.relayout(L, lay)
                L.rotate_by(G, mk) if qs else L.rotate_by(G)
                rec["outs"] = be.p_list(L)
            elif kind == "map":
                L = be.cmap(ins)
                if lay == "inverse":
                    L = L.inverse().inverse()          # the same map, in whatever layout inverse() returns
                    rec["ins"] = be.p_list(L)
                elif lay:
                    L = be.relayout(L, lay)
                L.rotate_by(G)
                rec["outs"] = be.p_list(L)
            elif kind == "state":
                L = be.state(ins_to_state(ins), scn["r"])
                rec["ins"] = ins_to_state(ins)
                rec["r0"] = scn["r"]
                L.rotate_by(G)
                rec["outs"] = be.p_list(L)
                rec["r1"] = be.p_state(L)["r"]
            elif kind == "poly":
                cs = [(j % 7 + 1) * 0.125 + 1j * (j % 3) for j in range(len(ins))]
                L = be.poly(ins, cs)
                if lay:
                    L = be.relayout(L, lay)
                L.rotate_by(G, mk) if qs else L.rotate_by(G)
                rec["outs"] = be.p_list(L)
                rec["csok"] = [complex(c) for c in be.tolist(L.cs)] == [complex(c) for c in cs]
            elif kind == "pauli":
                outs = []
                for w in ins:
                    P = be.pauli(w)
                    P.rotate_by(G, mk) if qs else P.rotate_by(G)
                    outs.append(be.p_pauli(P))
                rec["outs"] = outs
            elif kind == "kernel":
                L = be.plist(ins)
                gs, ps = be.utils.clifford_rotate(G.g, G.p, L.gs, L.ps)
                rec["outs"] = be.p_rows(gs, ps)
            rec["g1"] = be.p_pauli(G)
        except Exception as e:
            rec["exc"] = _exc(e)
        return rec

    def _rotmap(self, scn, be):
        rec = {"op": "rotmap", "g": scn["g"]}
        try:
            if scn.get("printopts"):
                import numpy
                # the host program lowered numpy's print threshold: arrays are abbreviated when turned into text
                with numpy.printoptions(threshold=4, edgeitems=1):
                    m = be.stabilizer.clifford_rotation_map(be.pauli(scn["g"]))
                rec["printopts"] = True
            else:
                m = be.stabilizer.clifford_rotation_map(be.pauli(scn["g"]))
            rec["ret"] = be.p_list(m)
            # the caller owns the table it was given: after it is changed in place (two rotations by single-letter
            # generators), asking for the table of the same generator again -- directly and through a compiled rotation
            # gate -- still gives the conjugation table of that generator
            n = len(scn["g"]) - 1
            if not scn.get("printopts") and n <= 12:
                m.rotate_by(be.pauli([1] + [0] * (n - 1) + [0]))
                m.rotate_by(be.pauli([0] * (n - 1) + [3] + [2]))
                rec["ret2"] = be.p_list(be.stabilizer.clifford_rotation_map(be.pauli(scn["g"])))
                gate = be.circuit.clifford_rotation_gate(be.pauli(scn["g"]))
                if hasattr(gate, "compile") and len(getattr(gate, "qubits", ())) == n:
                    gate.compile()
                    rec["ret3"] = be.p_list(gate.forward_map)
                    gate.forward_map.rotate_by(be.pauli([2] + [0] * (n - 1) + [0]))
                    rec["ret4"] = be.p_list(be.stabilizer.clifford_rotation_map(be.pauli(scn["g"])))
        except Exception as e:
            rec["exc"] = _exc(e)
        return rec

    def _rotseq(self, scn, be):
        n, gens = scn["n"], scn["gens"]
        out = []
        # object kinds: the identity table as a map, a list with all four phases, a polynomial
        probes = {"map": enum.idmap(n),
                  "list": [w[:-1] + [(w[-1] + j) % 4] for j, w in enumerate(enum.idmap(n) + [[2] * n + [1], [1, 3] * (n // 2) + [0] * (n % 2) + [3]])]}
        for kind, ins in probes.items():
            rec = {"op": "rotseq", "kind": kind, "gens": gens, "ins": ins}
            try:
                L = be.cmap(ins) if kind == "map" else be.plist(ins)
                for g in gens:
                    L.rotate_by(be.pauli(g))
                rec["mid"] = be.p_list(L)
                for g in reversed(gens):
                    L.rotate_by(-be.pauli(g))
                rec["outs"] = be.p_list(L)
            except Exception as e:
                rec["exc"] = _exc(e)
            out.append(rec)
        return out


def embed_tableau(small, r_small, n, signs=None):
    """a small tableau (2k rows, tableau order, its first r_small stabilizers standby) placed on the LAST k qubits of an
    n-qubit register.  signs=None: the other qubits are maximally mixed, r = n - k + r_small.  signs = list of n-k
    bits: the other qubits are in the computational basis state with those bits (stabilizers (-1)^b Z_q), r = r_small.
    Returns (rows, r).  (pure placement of letters; no Pauli algebra)"""
    k = len(small) // 2
    pad = n - k

    def z(q, l, ph=0):
        w = [0] * n + [ph]
        w[q] = l
        return w
    sm = [[0] * pad + w[:-1] + [w[-1]] for w in small]
    if signs is None:
        stab = [z(q, 3) for q in range(pad)] + sm[:k]
        dest = [z(q, 1) for q in range(pad)] + sm[k:]
        return stab + dest, pad + r_small
    # standby rows first, then the active ones
    stab = sm[:r_small] + [z(q, 3, 2 * signs[q]) for q in range(pad)] + sm[r_small:k]
    dest = sm[k:k + r_small] + [z(q, 1) for q in range(pad)] + sm[k + r_small:]
    return stab + dest, r_small


def ins_to_state(mapws):
    """tableau order of a map: Z-images (stabilizers) first, then X-images (destabilizers)"""
    n = len(mapws) // 2
    return [mapws[2 * i + 1] for i in range(n)] + [mapws[2 * i] for i in range(n)]


PROP = C02
