"""C19  Stabilizer-group sampling and classical-shadow snapshots agree with the state."""
import math
import numpy
from ..core import Prop
from .. import enum
from ..backend import _as_int
from .c02 import _exc, ins_to_state
from .c03 import read_maps
from .c15 import coef3


class ProxyCircuit(object):
    """forwards povm() to the real circuit and records every state it yields"""

    def __init__(self, real, be, log):
        self.real, self.N, self.be, self.log = real, real.N, be, log

    def povm(self, nsample):
        for s in self.real.povm(nsample):
            self.log.append(self.be.p_state(s))
            yield s


class C19(Prop):
    id = "C19"
    suite_family = ('c19', ('sample',))
    trace_module = "TraceC19"
    trace_cfg = "TraceC19.cfg"
    backends = ("py",)
    chunk = 500
    assumptions = [
        "membership in the signed stabilizer group (hence expectation +1) is judged by TLC on StabSem!Grp",
        "uniformity of sample(): fixed seed blocks, every group element reached, chi-square within 8 sigma (as C16)",
        "POVM states of a shadow are observed through a duck-typed proxy circuit whose povm() forwards to the real one",
        "density_matrix: all tableaux N<=2, TLC-simulated N=3..5, product states up to N-r=10 (binary_repr crosses the byte boundary)",
    ]
    rule = "one record per sample()/density_matrix/binary_repr call and per classical-shadow snapshot"

    def models(self):
        self.maps = {}
        for n in (1, 2):
            pf = "%s/maps_n%d.txt" % (self.wd, n)
            self.model("MC_Clifford", "MC_Clifford_maps_n%d.cfg" % n, name="maps_n%d" % n, print_file=pf,
                       expect_distinct=(24 if n == 1 else 11520))
            self.maps[n] = [m for m, _ in read_maps(pf)]
        self.big = []
        nb = 40 if self.tier == "thorough" else 8
        for n in (3, 4, 5):
            r = self.model("MC_RotSim", "MC_RotSim_n%d.cfg" % n, name="rotsim_n%d" % n, workers=1, simulate="num=%d" % nb,
                           depth=8, seed=self.seed + 100 + n, collect=True)
            for e in r.printed:
                if e[0] == "S" and e[1] in (4, 8):
                    self.big.append((n, e[3]))

    def scenarios(self):
        thorough = self.tier == "thorough"
        rng = self.rng
        sd = self.seed * 7907
        for n in (1, 2):
            tabs = [(m, r) for m in self.maps[n] for r in range(n + 1)]
            pick = tabs if (n == 1 or thorough) else rng.sample(tabs, 1500)
            for i, (m, r) in enumerate(pick):
                rows = ins_to_state(m)
                yield {"k": "sample", "rows": rows, "r": r, "L": 8, "seed": sd + i}
                yield {"k": "density", "rows": rows, "r": r}
                if i % 60 == 0:
                    yield {"k": "sampledist", "rows": rows, "r": r, "M": 4000, "seed": sd + i}
                    yield {"k": "sampledist", "rows": rows, "r": r, "M": 3000, "seed": sd + i + 1, "chunk": 1 + (i // 60) % 3}
        for i, (n, m) in enumerate(self.big):
            rows = ins_to_state(m)
            for r in range(n + 1):
                yield {"k": "sample", "rows": rows, "r": r, "L": 12, "seed": sd + 31 * i + r}
                yield {"k": "density", "rows": rows, "r": r}
            yield {"k": "sampledist", "rows": rows, "r": max(0, n - 3), "M": 6000, "seed": sd + i}
            yield {"k": "sampledist", "rows": rows, "r": max(0, n - 2), "M": 3000, "seed": sd + i + 7, "chunk": 1 + i % 3, "pkg": "py"}
        # wide product states: N - r up to 10
        for n in (8, 9, 10):
            rows = [[3 if j == i else 0 for j in range(n)] + [2 * ((i + n) % 2)] for i in range(n)] + \
                   [[1 if j == i else 0 for j in range(n)] + [0] for i in range(n)]
            yield {"k": "density", "rows": rows, "r": 0}
        # wide registers: N - r crosses 64 (one machine word of coin bits)
        for j, (n, r) in enumerate(((63, 0), (64, 0), (65, 0), (72, 0), (72, 8), (96, 0), (130, 1))):
            yield {"k": "widesample", "n": n, "r": r, "sign": [rng.randrange(2) for _ in range(n)], "L": 400, "seed": sd + 77 + j, "pkg": "py"}
        yield {"k": "widesample", "n": 72, "r": 0, "sign": [rng.randrange(2) for _ in range(72)], "L": 400, "seed": sd + 99}
        for w in range(1, 11):
            yield {"k": "binrepr", "ints": list(range(0, 2 ** w, max(1, 2 ** w // 64))) + [2 ** w - 1], "width": w}
            yield {"k": "binrepr", "ints": list(range(2 ** w)), "width": None, "w": w}
        # the same kinds of calls in an interpreter started with -O (assert statements stripped)
        opt = []
        for j in range(6):
            m = rng.choice(self.maps[2])
            opt.append({"k": "shadow", "rows": ins_to_state(m), "r": j % 3, "circ": ("onsite_rcc", "global_rcc", "brickwall_rcc", "fixed")[j % 4], "seed": sd + 2000 + j, "ns": 3})
            opt.append({"k": "sample", "rows": ins_to_state(m), "r": j % 3, "L": 6, "seed": sd + 2100 + j})
            opt.append({"k": "density", "rows": ins_to_state(m), "r": j % 3})
        yield {"k": "optpass", "scns": opt, "pkg": "py"}
        # classical shadows
        for j in range(30 if thorough else 10):
            for n in (2, 3):
                src = [(nn, mm) for nn, mm in self.big if nn == n] or None
                if n == 2:
                    m = rng.choice(self.maps[2])
                else:
                    m = rng.choice(src)[1]
                for cname in ("onsite_rcc", "global_rcc", "brickwall_rcc", "fixed"):
                    if cname == "brickwall_rcc" and n % 2:
                        continue
                    yield {"k": "shadow", "rows": ins_to_state(m), "r": j % (n + 1), "circ": cname, "seed": sd + 1000 + j, "ns": 4}
                # circuits of known gates with a history: compiled / sampled / extended / compiled again / copied
                for hist in HISTS:
                    yield {"k": "shadowhist", "rows": ins_to_state(m), "r": j % (n + 1), "hist": hist, "seed": sd + 3000 + j, "ns": 2,
                           "var": j, "pkg": "py"}

    def execute(self, scn, be):
        k = scn["k"]
        if k == "optpass":
            from .. import optrun
            return optrun.run(self.id, be.name, scn["scns"], self.wd)
        St, C = be.stabilizer, be.circuit
        rec = {"op": k}
        try:
            if k == "sample":
                rec["pre"] = {"rows": scn["rows"], "r": scn["r"]}
                rec["L"] = scn["L"]
                S = be.state(scn["rows"], scn["r"])
                be.seed(scn["seed"])
                rec["samples"] = be.p_list(S.sample(scn["L"]))
                rec["pre1"] = be.p_state(S)
            elif k == "widesample":
                n = scn["n"]
                rec.update(n=n, r=scn["r"], sign=scn["sign"], L=scn["L"])
                rows = [[3 if j == i else 0 for j in range(n)] + [2 * scn["sign"][i]] for i in range(n)] + \
                       [[1 if j == i else 0 for j in range(n)] + [0] for i in range(n)]
                S = be.state(rows, scn["r"])
                be.seed(scn["seed"])
                rec["samples"] = be.p_list(S.sample(scn["L"]))
            elif k == "sampledist":
                rec["pre"] = {"rows": scn["rows"], "r": scn["r"]}
                S = be.state(scn["rows"], scn["r"])
                be.seed(scn["seed"])
                counts = {}
                ch = scn.get("chunk")
                if ch:
                    # many small calls instead of one bulk call (the law must not depend on how many are asked for at once)
                    drawn = []
                    for _ in range(scn["M"] // ch):
                        drawn += be.p_list(S.sample(ch))
                    rec["chunk"] = ch
                else:
                    drawn = be.p_list(S.sample(scn["M"]))
                for w in drawn:
                    counts[tuple(w)] = counts.get(tuple(w), 0) + 1
                n = len(scn["rows"]) // 2
                expect = 2 ** (n - scn["r"])
                mval = scn["M"] / float(expect)
                chi2 = sum((c - mval) ** 2 / mval for c in counts.values()) + (expect - len(counts)) * mval
                dof = max(expect - 1, 1)
                rec.update(support=len(counts), expect=expect, dof=dof, chi2m=int(math.ceil(1000 * chi2)) if expect > 1 else 0,
                           slackm=1000 * int(math.ceil(8 * math.sqrt(2 * dof))))
            elif k == "density":
                rec["pre"] = {"rows": scn["rows"], "r": scn["r"]}
                S = be.state(scn["rows"], scn["r"])
                D = S.density_matrix
                ws = be.p_list(D)
                rec["terms"] = [[w] + list(coef3(c)) for w, c in zip(ws, be.tolist(D.cs))]
                rec["pre1"] = be.p_state(S)
            elif k == "binrepr":
                ints = numpy.array(scn["ints"])
                w = scn["width"] if scn["width"] is not None else scn["w"]
                rec["ints"], rec["width"] = scn["ints"], w
                out = be.utils.binary_repr(ints, scn["width"]) if scn["width"] is not None else be.utils.binary_repr(ints)
                rec["bits"] = [be.p_ints(row) for row in out]
            elif k == "shadowhist":
                return self.shadow_history(scn, be)
            elif k == "shadow":
                n = len(scn["rows"]) // 2
                base = be.state(scn["rows"], scn["r"])
                be.seed(scn["seed"])
                if scn["circ"] == "fixed":
                    real = C.CliffordCircuit(n)
                    real.take(C.H(0))
                    real.take(C.CNOT(0, 1))
                    real.take(C.S(n - 1))
                elif scn["circ"] == "brickwall_rcc":
                    real = C.brickwall_rcc(n, 2)
                else:
                    real = getattr(C, scn["circ"])(n)
                log = []
                proxy = ProxyCircuit(real, be, log)
                sh = be.device.ClassicalShadow(base, proxy)
                snaps = [be.p_state(s) for s in sh.snapshots(scn["ns"])]
                after = be.p_state(base)
                out = []
                for pv, sn in zip(log, snaps):
                    out.append({"op": "shadow", "circ": scn["circ"], "base": {"rows": scn["rows"], "r": scn["r"]}, "base1": after, "povm": pv, "snap": sn})
                if len(out) != scn["ns"]:
                    out.append({"op": "shadow", "exc": "SnapshotCount"})
                return out
        except Exception as e:
            rec["exc"] = _exc(e)
        return [rec]


HISTS = ("plain", "compiled", "sampled_extended_recompiled", "compiled_extended_recompiled", "sampled_copy",
         "sampled_extended_recompiled_copy", "plain_sampled_compiled", "composed_recompiled")


def hist_items(n, var):
    """rotation gates (generator items of the program alphabet): a first part and an extension"""
    g = lambda qs, letters, ph: {"how": "gen", "k": "gen", "qs": qs, "g": letters + [ph]}
    first = [g([1], [2], 0), g([1, 2], [3, 1], 2 * (var % 2)), g([n], [1 + var % 3], 0)]
    ext = [g([2], [1 + (var + 1) % 3], 2), g([1, n], [1, 3], 0)]
    return first, ext


def _shadow_history(self, scn, be):
    from .. import circ
    C = be.circuit
    n = len(scn["rows"]) // 2
    base = be.state(scn["rows"], scn["r"])
    base0 = {"rows": scn["rows"], "r": scn["r"]}
    be.seed(scn["seed"])
    first, ext = hist_items(n, scn["var"])
    hist = scn["hist"]
    out = []
    state = {"items": [], "c": C.CliffordCircuit(n)}

    def take(items):
        for j, it in enumerate(items):
            state["c"].take(circ.make_gate(be, it, n, 2 * (len(state["items"]) + scn["var"]) + (j % 2)))
            state["items"].append(it)

    def snaps(tag):
        log = []
        sh = be.device.ClassicalShadow(base, ProxyCircuit(state["c"], be, log))
        got = [be.p_state(s) for s in sh.snapshots(scn["ns"])]
        after = be.p_state(base)
        for pv, sn in zip(log, got):
            out.append({"op": "shadow", "circ": "hist:%s:%s" % (hist, tag), "prog": [circ.wire_item(it) for it in state["items"]],
                        "base": base0, "base1": after, "povm": pv, "snap": sn})
        if len(got) != scn["ns"] or len(log) != scn["ns"]:
            out.append({"op": "shadow", "exc": "SnapshotCount"})

    try:
        take(first)
        if hist == "plain":
            snaps("a")
        elif hist == "compiled":
            state["c"].compile()
            snaps("a")
        elif hist == "plain_sampled_compiled":
            snaps("a")
            state["c"].compile()
            snaps("b")
        elif hist in ("sampled_extended_recompiled", "compiled_extended_recompiled", "sampled_extended_recompiled_copy"):
            state["c"].compile()
            if hist != "compiled_extended_recompiled":
                snaps("a")
            take(ext)
            state["c"].compile()
            if hist.endswith("_copy"):
                state["c"] = state["c"].copy()
            snaps("b")
        elif hist == "sampled_copy":
            state["c"].compile()
            snaps("a")
            state["c"] = state["c"].copy()
            snaps("b")
        elif hist == "composed_recompiled":
            state["c"].compile()
            snaps("a")
            other = C.CliffordCircuit(n)
            keep, state["c"] = state["c"], other
            n0 = len(state["items"])
            take(ext)
            other.compile()
            state["c"] = keep.compose(other)
            state["c"].compile()
            snaps("b")
    except Exception as e:
        out.append({"op": "shadow", "circ": "hist:%s" % hist, "exc": _exc(e)})
    return out


C19.shadow_history = _shadow_history
PROP = C19
