"""C12  State-map duality and state constructors denote the documented states."""
from ..core import Prop
from .. import enum
from ..backend import _as_int
from .c02 import ins_to_state, embed_tableau, _exc
from .c03 import read_maps

LET = "IXYZ"
PFX = {0: "", 2: "-"}


def wire_str(w):
    return PFX[w[-1]] + "".join(LET[l] for l in w[:-1])


class C12(Prop):
    id = "C12"
    suite_family = ('stab', ('tostate', 'fromstab'))
    trace_module = "TraceStab"
    trace_cfg = "TraceStab.cfg"
    backends = ("py", "torch")
    chunk = 400
    assumptions = [
        "constructor constants (ZeroGroup, OneGroup, GHZGroup, MixedGroup) are grounded in matrices by MC_StabSem!ConstructorsOK",
        "dense exports are compared entry-wise after scaling by 2^N (entries are then Gaussian integers; non-integers are recorded as out-of-range and rejected)",
        "independent commuting stabilizer lists are taken from stabilizer halves of valid tableaux (all of them for N<=2) with all sign patterns, in several orders and input formats",
    ]
    rule = "one record per to_state/to_map round trip, constructor call, dense export or stabilizer_state() call"

    def models(self):
        for n in (1, 2):
            self.model("MC_StabSem", "MC_StabSem_c05_n%d.cfg" % n, name="stabsem_n%d" % n, expect_distinct=(7 if n == 1 else 91))
            self.model("MC_Project", "MC_Project_n%d.cfg" % n, name="project_n%d" % n)
        self.maps = {}
        for n in (1, 2):
            pf = "%s/maps_n%d.txt" % (self.wd, n)
            self.model("MC_Clifford", "MC_Clifford_maps_n%d.cfg" % n, name="maps_n%d" % n, print_file=pf,
                       expect_distinct=(24 if n == 1 else 11520))
            self.maps[n] = [m for m, _ in read_maps(pf)]
        self.big = []
        self.yimg = {}
        nb = 60 if self.tier == "thorough" else 10
        for n in (3, 4):
            r = self.model("MC_RotSim", "MC_RotSim_n%d.cfg" % n, name="rotsim_n%d" % n, workers=1, simulate="num=%d" % nb,
                           depth=8, seed=self.seed + 70 + n, collect=True)
            for e in r.printed:
                if e[0] == "S" and e[1] in (4, 8):
                    self.big.append((n, e[3]))
                    self.yimg[tuple(map(tuple, e[3]))] = e[6]

    def scenarios(self):
        thorough = self.tier == "thorough"
        rng = self.rng
        for n in (1, 2):
            maps = self.maps[n]
            pick = maps if (n == 1 or thorough) else rng.sample(maps, 2500)
            for i, m in enumerate(pick):
                if i % 6 == 0:
                    # rank arguments of numpy integer types
                    yield {"k": "tostate", "m": m, "rarg": 1 + i % n if n > 1 else 1, "rtype": ("int64", "int32", "uint8", "intp")[(i // 6) % 4], "pkg": "py"}
                for rarg in [None] + list(range(n + 1)):
                    s = {"k": "tostate", "m": m, "rarg": rarg}
                    if n == 2 and i % 12:
                        s["pkg"] = "py"
                    yield s
                if i % (1 if n == 1 else 5) == 0:
                    for r in range(n + 1):
                        s = {"k": "qutip", "rows": ins_to_state(m), "r": r}
                        if i % 25:
                            s["pkg"] = "py"
                        yield s
                # stabilizer_state from every ordered sub-list of the stabilizer half, with signs
                rows = ins_to_state(m)[:n]
                lists = []
                for L in range(1, n + 1):
                    import itertools
                    for sub in itertools.permutations(range(n), L):
                        lists.append([rows[j][:-1] + [(rows[j][-1] + 2 * rng.randrange(2)) % 4] for j in sub])
                for li, lst in enumerate(lists):
                    fmt = ("plist", "strings", "strlist", "codes", "gen", "genp")[(i + li) % 6]
                    s = {"k": "fromstab", "n": n, "stabs": lst, "fmt": fmt}
                    if n == 2 and i % 12:
                        s["pkg"] = "py"
                    yield s
                if i % 3 == 0:
                    # anticommuting input must be refused
                    d = ins_to_state(m)
                    bad = [d[0], d[n]] if n == 1 else [d[1], d[0], d[n]]
                    rng.shuffle(bad)
                    yield {"k": "fromstab", "n": n, "stabs": [w[:-1] + [w[-1] % 4 if w[-1] in (0, 2) else 0] for w in bad], "fmt": "plist", "pkg": "py"}
        for n, m in self.big:
            for rarg in (None, 0, 1, n):
                yield {"k": "tostate", "m": m, "rarg": rarg}
            rows = ins_to_state(m)[:n]
            for L in range(1, n + 1):
                sub = rng.sample(range(n), L)
                yield {"k": "fromstab", "n": n, "stabs": [rows[j][:-1] + [(rows[j][-1] + 2 * rng.randrange(2)) % 4] for j in sub],
                       "fmt": rng.choice(("plist", "strings", "strlist", "codes"))}
            # lists drawn from the images of X_i, Z_i, Y_i: two operators of the same qubit anticommute (must be
            # refused, also when every member anticommutes with an even number of the others), otherwise the
            # list is commuting and independent
            yi = self.yimg.get(tuple(map(tuple, m)))
            if yi:
                pool = [(q, w) for q in range(n) for w in (m[2 * q], m[2 * q + 1], yi[q])]
                for t in range(10):
                    L = rng.randrange(2, n + 1)
                    if t % 3 == 0:
                        q = rng.randrange(n)
                        lst = [w for qq, w in pool if qq == q][:max(2, min(3, L))]      # 2 or 3 mutually anticommuting
                        others = [w for qq, w in pool if qq != q]
                        rng.shuffle(others)
                        picked, seenq = [], set()
                        for qq, w in [(qq2, w2) for qq2, w2 in pool if qq2 != q]:
                            if qq not in seenq and len(lst) + len(picked) < max(L, len(lst)) and rng.random() < 0.5:
                                picked.append(w)
                                seenq.add(qq)
                        lst = lst + picked
                        rng.shuffle(lst)
                    else:
                        lst = [w for _q, w in rng.sample(pool, L)]
                    lst = [w[:-1] + [(w[-1] + 2 * rng.randrange(2)) % 4] for w in lst]
                    yield {"k": "fromstab", "n": n, "stabs": lst, "fmt": "plist"}
            if n == 3 and thorough:
                yield {"k": "qutip", "rows": ins_to_state(m), "r": rng.randrange(n + 1), "pkg": "py"}
        # registers across the 64-bit word boundary: the stabilizers of a 3/4-qubit block placed on the last qubits of a
        # 66 / 70-qubit register (rank N - L: the group stays small), plus Z on a few padding qubits
        for bi, (k, m) in enumerate(self.big[:6]):
            nn = (66, 70)[bi % 2]
            rows, _r = embed_tableau(ins_to_state(m), 0, nn)
            pad = nn - k
            lst = [w[:-1] + [(w[-1] + 2 * rng.randrange(2)) % 4] for w in rows[pad:nn]]
            extra = [rows[q][:-1] + [2 * rng.randrange(2)] for q in (0, 63, 64) if q < pad]
            for sub in (lst, lst[::-1] + extra, extra + lst[:2]):
                yield {"k": "fromstab", "n": nn, "stabs": sub, "fmt": ("plist", "strings", "strlist")[bi % 3]}
            bad = [lst[0], rows[nn + pad][:-1] + [0]]          # a stabilizer and its own destabilizer: anticommuting
            yield {"k": "fromstab", "n": nn, "stabs": bad, "fmt": "plist"}
        for n in (1, 2, 3, 4, 5):
            for name in ("zero", "one", "ghz", "mixed"):
                yield {"k": "ctor", "name": name, "n": n}
                yield {"k": "ctor", "name": name, "n": n, "ntype": ("int64", "int32", "uint8", "intp")[n % 4], "pkg": "py"}
            for t in range(6):
                yield {"k": "randctor", "name": "random_bit", "n": n, "seed": self.seed + 17 * t + n, "pkg": "py"}
                for rarg in (None, 1):
                    yield {"k": "randctor", "name": "random_pauli", "n": n, "seed": self.seed + 19 * t + n, "rarg": rarg}
                    if rarg is not None and t == 0:
                        yield {"k": "randctor", "name": "random_pauli", "n": n, "seed": self.seed + 19 * t + n, "rarg": rarg, "rtype": "uint8", "pkg": "py"}
                        yield {"k": "randctor", "name": "random_clifford", "n": n, "seed": self.seed + 23 * t + n, "rarg": rarg, "rtype": "int64", "pkg": "py"}
                    yield {"k": "randctor", "name": "random_clifford", "n": n, "seed": self.seed + 23 * t + n, "rarg": rarg}

    def execute(self, scn, be):
        k = scn["k"]
        St = be.stabilizer
        rec = {"op": k}
        try:
            if k == "tostate":
                rec["m"] = scn["m"]
                rec["rarg"] = scn["rarg"] or 0
                M = be.cmap(scn["m"])
                if scn.get("rtype"):
                    import numpy
                    rec["rtype"] = scn["rtype"]
                    rv = getattr(numpy, scn["rtype"])(scn["rarg"])
                    S = M.to_state(rv)
                    rec["post"] = be.p_state(S)
                    C2 = S.copy()                        # the rank survives a copy
                    rec["back"] = be.p_list(S.to_map())
                    rec["m1"] = be.p_list(M)
                    rec2 = {"op": "tostate", "m": scn["m"], "rarg": scn["rarg"], "rtype": scn["rtype"] + ":copy", "post": be.p_state(C2)}
                    S2 = M.to_state()
                    S2.set_r(rv)
                    rec3 = {"op": "tostate", "m": scn["m"], "rarg": scn["rarg"], "rtype": scn["rtype"] + ":set_r", "post": be.p_state(S2)}
                    return [rec, rec2, rec3]
                S = M.to_state() if scn["rarg"] is None else M.to_state(scn["rarg"])
                rec["post"] = be.p_state(S)
                rec["back"] = be.p_list(S.to_map())
                rec["m1"] = be.p_list(M)
                # the same map object, changed in place, converted again: the state of the map as it is now
                n_ = len(scn["m"]) // 2
                M.rotate_by(be.pauli([2] + [1] * (n_ - 1) + [0]))
                M.rotate_by(be.pauli([3] * n_ + [2]))
                rec2 = {"op": "tostate", "m": be.p_list(M), "rarg": rec["rarg"], "live": True}
                S2 = M.to_state() if scn["rarg"] is None else M.to_state(scn["rarg"])
                rec2["post"] = be.p_state(S2)
                rec2["back"] = be.p_list(S2.to_map())
                rec2["m1"] = be.p_list(M)
                S.rotate_by(be.pauli([1] * n_ + [0]))          # ... and the first state belongs to the caller
                rec3 = {"op": "tostate", "m": rec2["m"], "rarg": rec["rarg"], "live": True}
                S3 = M.to_state() if scn["rarg"] is None else M.to_state(scn["rarg"])
                rec3["post"] = be.p_state(S3)
                rec3["back"] = be.p_list(S3.to_map())
                rec3["m1"] = be.p_list(M)
                return [rec, rec2, rec3]
            elif k == "ctor":
                rec["name"], rec["n"] = scn["name"], scn["n"]
                f = {"zero": St.zero_state, "one": St.one_state, "ghz": St.ghz_state, "mixed": St.maximally_mixed_state}[scn["name"]]
                if scn.get("ntype"):
                    import numpy
                    rec["ntype"] = scn["ntype"]
                    S = f(getattr(numpy, scn["ntype"])(scn["n"]))
                else:
                    S = f(scn["n"])
                if not hasattr(S, "r"):
                    raise TypeError("constructor returned %s" % type(S).__name__)
                rec["post"] = be.p_state(S)
                # the caller rotates (in place) the state it was given; the next state asked for by the same name and size is
                # still the documented one
                S.rotate_by(be.pauli([1] + [0] * (scn["n"] - 1) + [0]))
                S.rotate_by(be.pauli([0] * (scn["n"] - 1) + [2] + [2]))
                rec["post2"] = be.p_state(f(scn["n"]))
            elif k == "randctor":
                rec["name"], rec["n"] = scn["name"], scn["n"]
                rec["rarg"] = scn.get("rarg") or 0
                if scn.get("rtype"):
                    import numpy
                    rec["rtype"] = scn["rtype"]
                    scn = dict(scn, rarg=getattr(numpy, scn["rtype"])(scn["rarg"]))
                be.seed(scn["seed"])
                if scn["name"] == "random_bit":
                    S = St.random_bit_state(scn["n"])
                elif scn["name"] == "random_pauli":
                    S = St.random_pauli_state(scn["n"]) if scn.get("rarg") is None else St.random_pauli_state(scn["n"], scn["rarg"])
                else:
                    S = St.random_clifford_state(scn["n"]) if scn.get("rarg") is None else St.random_clifford_state(scn["n"], scn["rarg"])
                rec["post"] = be.p_state(S)
            elif k == "qutip":
                rec["pre"] = {"rows": scn["rows"], "r": scn["r"]}
                S = be.state(scn["rows"], scn["r"])
                n = len(scn["rows"]) // 2
                q = S.to_qutip()
                arr = q.full() * (2 ** n)
                mat = []
                for a in range(2 ** n):
                    row = []
                    for b in range(2 ** n):
                        z = complex(arr[a][b])
                        # float rounding is outside the model: entries within 1e-5 of an integer are that integer
                        re = round(z.real) if abs(z.real - round(z.real)) < 1e-5 else None
                        im = round(z.imag) if abs(z.imag - round(z.imag)) < 1e-5 else None
                        row.append([999 if re is None else re, 999 if im is None else im])
                    mat.append(row)
                rec["mat"] = mat
            elif k == "fromstab":
                rec["n"], rec["stabs"], rec["fmt"] = scn["n"], scn["stabs"], scn["fmt"]
                lst = scn["stabs"]
                try:
                    if scn["fmt"] == "plist":
                        S = St.stabilizer_state(be.plist(lst))
                    elif scn["fmt"] == "strings":
                        S = St.stabilizer_state(*[wire_str(w) for w in lst])
                    elif scn["fmt"] == "strlist":
                        S = St.stabilizer_state([wire_str(w) for w in lst])
                    elif scn["fmt"] in ("gen", "genp"):
                        # one generator expression (a format paulis() supports); a TypeError would be a refusal
                        try:
                            if scn["fmt"] == "gen":
                                S = St.stabilizer_state(wire_str(w) for w in lst)
                            else:
                                S = St.stabilizer_state(be.pauli(w) for w in lst)
                        except TypeError:
                            return []
                    else:
                        # arrays of codes: 0-3 letters, 5 = '-' sign token in front
                        import numpy
                        codes = [([5] if w[-1] == 2 else []) + list(w[:-1]) for w in lst]
                        S = St.stabilizer_state([numpy.array(c) for c in codes])
                    rec["post"] = be.p_state(S)
                except ValueError as e:
                    rec["refused"] = "ValueError"
        except Exception as e:
            rec["exc"] = _exc(e)
        return [rec]


PROP = C12
