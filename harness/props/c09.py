"""C09  A circuit acts as the ordered product of its gates.   (C10 reuses this driver.)"""
from ..core import Prop
from .. import tlc, enum, circ
from .c02 import _exc, ins_to_state

CONFIGS = [(c, m, v) for c in ("CliffordCircuit", "Circuit") for m in ("plain", "layers", "circuit")
           for v in (("orig", "copy", "composed") if c == "CliffordCircuit" else ("orig",))]
TCONFIGS = [("CliffordCircuit", m, v) for m in ("plain", "layers", "circuit") for v in ("orig", "copy", "composed")]


def probes_for(n):
    gens = enum.idmap(n)
    lst = [w[:-1] + [(w[-1] + j) % 4] for j, w in enumerate(gens)] + [[2] * n + [1], ([1, 3, 2] * n)[:n] + [3]]
    # a signed rank-1 tableau
    if n == 3:
        st = [[3, 0, 0, 2], [1, 1, 0, 0], [0, 2, 3, 2], [1, 0, 0, 0], [3, 3, 0, 2], [0, 1, 1, 0]]
    else:
        st = [[3 if j == i else 0 for j in range(n)] + [2 * (i % 2)] for i in range(n)] + \
             [[1 if j == i else 0 for j in range(n)] + [0] for i in range(n)]
    return gens, lst, st


class C09(Prop):
    id = "C09"
    refusal_family = "circuit"
    trace_module = "TraceCircuit"
    trace_cfg = "TraceC09.cfg"
    backends = ("py", "torch")
    chunk = 600
    want = ("fwd", "seq")
    assumptions = [
        "programs: every sequence of at most 3 (quick) / 4 (thorough) gates over the 14-gate alphabet of MC_Circuit on N=3 (named gates, generator gates, forward-map, backward-map-only and two-map gates, local and global), plus TLC-simulated random programs of length 10 (and prefixes) on N=4,5,6",
        "TLC proves on its own transcription of take() that the packing is legal and that layer order denotes the program; any legal packing recorded from the code is accepted",
        "configurations {CliffordCircuit, Circuit} x {uncompiled, layers compiled, circuit compiled} x {original, copy, composed halves}: all 12 per program of <=3 gates in thorough, a rotating subset of 3 otherwise",
    ]
    rule = "one record per (program, configuration): recorded layer layout plus forward / gate-by-gate / backward images of a map probe, a phased list probe and a signed state probe"

    def models(self):
        pf = "%s/programs.txt" % self.wd
        cfg = "MC_Circuit_t.cfg" if self.tier == "thorough" else "MC_Circuit_q.cfg"
        self.model("MC_Circuit", cfg, name="programs", print_file=pf, timeout=3000)
        self.alpha, self.progs = circ.read_programs(pf)
        # longer random programs on more qubits (TLC -simulate with the transcribed packing)
        self.sim = []
        nb = 250 if self.tier == "thorough" else 40
        for n in (4, 5, 6):
            r = self.model("MC_CircuitSim", "MC_CircuitSim_n%d.cfg" % n, name="circuitsim_n%d" % n, workers=1,
                           simulate="num=%d" % nb, depth=10, seed=self.seed + 120 + n, collect=True)
            for pr in circ.read_sim_programs(r.printed):
                self.sim.append((n, pr["items"]))
        # dense maps on 24 qubits with their inverses (TLC walk): gates specified by ONE map, the other is derived by the code
        self.dense = []
        r = self.model("MC_RotSim", "MC_RotSim_n24.cfg", name="rotsim_n24", workers=1, simulate="num=%d" % (3 if self.tier == "thorough" else 1),
                       depth=14, seed=self.seed + 124, collect=True, timeout=1500)
        for e in r.printed:
            if e[0] == "S" and e[1] in (10, 14):
                self.dense.append((24, e[3], e[4]))

    def scenarios(self):
        thorough = self.tier == "thorough"
        k = 0
        for ids, lay in self.progs:
            if any(i > 14 for i in ids) or not ids:
                continue
            k += 1
            # thorough: every configuration for programs up to 3 gates, a rotating subset of 3 for the 65k programs of 4 gates
            full = thorough and len(ids) <= 3
            cfgs = CONFIGS if full else [CONFIGS[(k * 5 + t * 4) % len(CONFIGS)] for t in range(3)]
            for c in cfgs:
                yield {"k": "circuit", "ids": ids, "cfg": list(c), "pkg": "py", "model_layout": lay}
            if k % (4 if thorough else 9) == 0:
                c = TCONFIGS[k % len(TCONFIGS)]
                yield {"k": "circuit", "ids": ids, "cfg": list(c), "pkg": "torch"}
        for j, (n, items) in enumerate(self.sim):
            for cut in (len(items), 4 + j % 4):
                sub = items[:cut]
                for t in range(3 if not thorough else 6):
                    yield {"k": "circuit", "items": sub, "n": n, "cfg": list(CONFIGS[(j * 5 + t * 4 + cut) % len(CONFIGS)]), "pkg": "py"}
                if j % 5 == 0:
                    yield {"k": "circuit", "items": sub, "n": n, "cfg": list(TCONFIGS[(j + cut) % len(TCONFIGS)]), "pkg": "torch"}

        # wide registers: the N=3 programs relabelled onto qubits around index 64 (one machine word of qubit flags)
        wide = [ids for ids, _ in self.progs if len(ids) == 3 and all(i <= 14 for i in ids)]
        rng = self.rng
        # the empty program: a circuit that has taken no gate is the identity in every configuration
        for c in CONFIGS:
            yield {"k": "circuit", "items": [], "n": 3, "cfg": list(c), "pkg": "py"}
        for c in TCONFIGS:
            yield {"k": "circuit", "items": [], "n": 3, "cfg": list(c), "pkg": "torch"}
        for j, (n, m, mi) in enumerate(self.dense):
            qs = list(range(1, n + 1))
            for how in ("fwd", "bwd", "both"):
                items = [{"how": how, "k": "map", "qs": qs, "m": m, "mi": mi}]
                if j % 2:
                    items.append(dict(self.alpha[1], qs=[q + 20 for q in self.alpha[1]["qs"]]) if max(self.alpha[1]["qs"]) <= 3 else items[0])
                for cfg in (("CliffordCircuit", "plain", "orig"), ("CliffordCircuit", "circuit", "copy")):
                    yield {"k": "circuit", "items": items, "n": n, "cfg": list(cfg), "wide": True}
        for t in range(36 if thorough else 12):
            # (medium registers, 9..12 qubits, for both packages: labels beyond 7)
            ids = rng.choice(wide)
            n, inj = rng.choice(((9, [1, 8, 9]), (9, [7, 8, 9]), (12, [2, 5, 8]), (12, [8, 10, 12]), (10, [3, 9, 10])))
            items = [dict(self.alpha[i], qs=[inj[q - 1] for q in self.alpha[i]["qs"]]) for i in ids]
            yield {"k": "circuit", "items": items, "n": n, "cfg": list(CONFIGS[(t * 5) % len(CONFIGS)]), "pkg": "py", "wide": True}
            yield {"k": "circuit", "items": items, "n": n, "cfg": list(TCONFIGS[(t * 4) % len(TCONFIGS)]), "pkg": "torch", "wide": True}
        for t in range(30 if thorough else 10):
            ids = rng.choice(wide)
            n, inj = rng.choice(((66, [64, 65, 66]), (66, [2, 65, 66]), (65, [63, 64, 65]), (70, [1, 64, 66]), (70, [64, 65, 70]), (64, [62, 63, 64])))
            # (ascending relabellings only: a gate's map acts on its qubits in ascending order -- the library's convention,
            # cf. the two tables of CNOT -- so a relabelling that reverses the order would change the program's meaning)
            items = [dict(self.alpha[i], qs=[inj[q - 1] for q in self.alpha[i]["qs"]]) for i in ids]
            for cfg in (("CliffordCircuit", "circuit", "orig"), (("Circuit", "CliffordCircuit")[t % 2], ("plain", "layers")[(t // 2) % 2], ("orig", "orig", "copy")[t % 3])):
                if cfg[0] == "Circuit" and cfg[2] != "orig":
                    cfg = ("Circuit", cfg[1], "orig")
                yield {"k": "circuit", "items": items, "n": n, "cfg": list(cfg), "pkg": "py", "wide": True}
            # the same with numpy integer qubit labels, both packages
            yield {"k": "circuit", "items": items, "n": n, "cfg": list(CONFIGS[(t * 4) % len(CONFIGS)]), "pkg": "py", "wide": True, "labels": ("int64", "int32", "uint8")[t % 3]}
            yield {"k": "circuit", "items": items, "n": n, "cfg": list(TCONFIGS[(t * 2) % len(TCONFIGS)]), "pkg": "torch", "wide": True, "labels": ("int64", "int32")[t % 2]}

    def execute(self, scn, be):
        n = scn.get("n", 3)
        items = scn["items"] if "items" in scn else [self.alpha[i] for i in scn["ids"]]
        cls, mode, variant = scn["cfg"]
        rec = {"op": "circuit", "n": n, "cls": cls, "mode": mode, "variant": variant,
               "prog": [circ.wire_item(it) for it in items], "probes": []}
        try:
            circ.LABEL_TYPE[0] = scn.get("labels")
            try:
                c, orig, gates = circ.build(be, items, n, cls, mode, variant)
            finally:
                circ.LABEL_TYPE[0] = None
            if scn.get("labels"):
                rec["labels"] = scn["labels"]
            rec["layout"] = circ.layout_of(c, orig, gates)
            if variant == "composed":
                rec["h"] = len(items) // 2
            if not scn.get("labels") and n <= 12:
                rec.update(circ.describe(be, c, items))
            gens, lst, st = probes_for(n)
            for kind, ins in (("map", gens), ("list", lst), ("state", st)):
                pr = {"kind": kind, "ins": ins}

                def mk():
                    if kind == "map":
                        return be.stabilizer.identity_map(n)
                    if kind == "list":
                        return be.plist(ins)
                    return be.state(ins, 1)
                if kind == "state":
                    pr["r0"] = 1
                x = mk()
                c.forward(x)
                pr["fwd"] = be.p_list(x)
                if kind == "state":
                    pr["r_fwd"] = be.p_state(x)["r"]
                c.backward(x)
                pr["back"] = be.p_list(x)
                if kind == "state":
                    pr["r_back"] = be.p_state(x)["r"]
                y = mk()
                c.backward(y)
                pr["bwd"] = be.p_list(y)
                c.forward(y)
                pr["forth"] = be.p_list(y)
                if "seq" in self.want and kind != "map":
                    z = mk()
                    for g in gates:
                        g.forward(z)
                    pr["seq"] = be.p_list(z)
                rec["probes"].append(pr)
            rec["layout1"] = circ.layout_of(c, orig, gates)
            other = getattr(orig, "_verif_other", None)
            if other is not None and variant == "composed":
                # compose() must not entangle the two circuits: extend the composed one, then re-observe the argument
                b, h = other
                extra = circ.make_gate(be, {"how": "fwd", "k": "map", "qs": [1], "m": [[3, 0], [1, 0]], "mi": [[3, 0], [1, 0]]}, n, 0)
                orig.take(extra)
                z = be.plist(lst)
                b.forward(z)
                rec["other"] = {"h": h, "ins": lst, "fwd": be.p_list(z)}
                b.backward(z)
                rec["other"]["back"] = be.p_list(z)
                y2 = be.plist(lst)
                b.backward(y2)
                rec["other"]["bwd"] = be.p_list(y2)
        except Exception as e:
            rec["exc"] = _exc(e)
            import traceback
            rec["where"] = traceback.format_exc().strip().splitlines()[-3][:120]
            return [rec]
        out = [rec]
        # two circuits that were BOTH compiled before one was composed onto the other, and no compilation afterwards
        # (documented: compose does not update the compiled maps, so WHAT the circuit then does is not promised -- but
        # whatever forward does, backward undoes it: C10 only)
        if variant == "composed" and mode == "plain" and cls == "CliffordCircuit" and len(items) >= 2 and not scn.get("wide"):
            rec3 = {"op": "circuit_rt", "n": n, "cls": cls, "mode": "compiled_halves", "variant": "composed", "probes": []}
            try:
                h = len(items) // 2
                a, _, _ = circ.build(be, items[:h], n, cls, "circuit", "orig")
                b, _, _ = circ.build(be, items[h:], n, cls, "circuit", "orig")
                c3 = a.compose(b)
                rec3["prog"] = [circ.wire_item(it) for it in items]
                gens, lst, st = probes_for(n)
                for kind, ins in (("map", gens), ("list", lst), ("state", st)):
                    pr = {"kind": kind, "ins": ins}
                    mk = (lambda: be.stabilizer.identity_map(n)) if kind == "map" else (lambda: be.plist(ins)) if kind == "list" else (lambda: be.state(ins, 1))
                    if kind == "state":
                        pr["r0"] = 1
                    x = mk()
                    c3.forward(x)
                    c3.backward(x)
                    pr["back"] = be.p_list(x)
                    if kind == "state":
                        pr["r_back"] = be.p_state(x)["r"]
                    y = mk()
                    c3.backward(y)
                    c3.forward(y)
                    pr["forth"] = be.p_list(y)
                    rec3["probes"].append(pr)
            except Exception as e:
                rec3["exc"] = _exc(e)
                rec3.setdefault("prog", rec["prog"])
            out.append(rec3)
        # the same (already used, uncompiled) circuit after its rotation gates were given new generators -- by plain
        # attribute assignment, as the library's own constructors do, or by set_generator: it is then the new program
        # In the compiled modes the circuit is compiled again after the change (documented: compiled maps are snapshots).
        if variant == "orig" and any(it["k"] == "gen" for it in items) and not scn.get("wide"):
            items2 = []
            rec2 = {"op": "circuit", "n": n, "cls": cls, "mode": mode, "variant": "regen", "probes": []}
            try:
                for j, (it, g) in enumerate(zip(items, gates)):
                    if it["k"] == "gen":
                        it2 = dict(it)
                        it2["g"] = it["g"][:-1] + [(it["g"][-1] + 2) % 4]
                        items2.append(it2)
                        w = be.p_pauli(g.generator)          # (condensed to the gate's own qubits by some constructors)
                        newg = be.pauli(w[:-1] + [(w[-1] + 2) % 4])
                        way = (j + len(items)) % 3
                        if way == 0:
                            g.generator = newg
                        elif way == 1:
                            g.set_generator(newg)
                        else:
                            # the generator object itself is changed in place through its public methods: a rotation by an
                            # anticommuting single-letter operator and back by another one, ending at minus the generator
                            # (read back from the object: no algebra here)
                            q = next(k for k, l in enumerate(w[:-1]) if l)
                            a = [0] * (len(w) - 1) + [0]
                            a[q] = 1 if w[q] != 1 else 3
                            g.generator.rotate_by(be.pauli(a))
                            g.generator.rotate_by(be.pauli(a))
                            w2 = be.p_pauli(g.generator)
                            if w2 != w[:-1] + [(w[-1] + 2) % 4]:
                                g.generator = newg
                    else:
                        items2.append(it)
                if mode == "layers":
                    for layer in c.layers_forward():
                        if hasattr(layer, "compile"):
                            layer.compile(n)
                elif mode == "circuit":
                    c.compile()
                rec2["prog"] = [circ.wire_item(it) for it in items2]
                gens, lst, st = probes_for(n)
                for kind, ins in (("list", lst), ("state", st)):
                    pr = {"kind": kind, "ins": ins}
                    mk = (lambda: be.plist(ins)) if kind == "list" else (lambda: be.state(ins, 1))
                    if kind == "state":
                        pr["r0"] = 1
                    x = mk()
                    c.forward(x)
                    pr["fwd"] = be.p_list(x)
                    c.backward(x)
                    pr["back"] = be.p_list(x)
                    y = mk()
                    c.backward(y)
                    pr["bwd"] = be.p_list(y)
                    c.forward(y)
                    pr["forth"] = be.p_list(y)
                    rec2["probes"].append(pr)
            except Exception as e:
                rec2["exc"] = _exc(e)
                rec2.setdefault("prog", rec["prog"])
            out.append(rec2)
        return out


PROP = C09
