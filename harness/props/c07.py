"""C07  Expectations, overlaps and bit-string probabilities equal the trace formulas."""
import itertools
from ..core import Prop
from .. import tlc, enum
from ..backend import _as_int, dyadic
from .c02 import ins_to_state, _exc
from .c03 import read_maps

REFUSALS = ("NotImplementedError",)


def cval(z, fine=None, tol=1e-6):
    if hasattr(z, "item"):
        z = z.item()
    z = complex(z)
    if fine:
        from ..backend import dyadic_fine
        a, b = dyadic_fine(z.real, fine, tol), dyadic_fine(z.imag, fine, tol)
    else:
        a, b = dyadic(z.real), dyadic(z.imag)
    return [a if a is not None else [7, 20], b if b is not None else [7, 20]]


class C07(Prop):
    id = "C07"
    refusal_family = "state"
    trace_module = "TraceStab"
    trace_cfg = "TraceStab.cfg"
    suite_family = ('stab', ('expect', 'overlap', 'prob'))
    backends = ("py", "torch")
    chunk = 300
    assumptions = [
        "Expect/Overlap/Prob set formulas grounded by TLC in matrices: Tr(rho P), Tr(rho sigma) over all 91x91 pairs, rho[b,b], sum_b = 1 (N<=2)",
        "coefficients are exact dyadic Gaussian rationals so float rounding cannot cause a mismatch",
        "expect(state) on a mixed receiver is an explicit NotImplementedError refusal, accepted as such",
    ]
    rule = "one record per expect()/get_prob()/kernel call: a whole list of observables, one polynomial, one pair of states, all 2^N bit strings"

    def models(self):
        for n in (1, 2):
            self.model("MC_StabSem", "MC_StabSem_c07_n%d.cfg" % n, name="stabsem_n%d" % n, expect_distinct=(7 if n == 1 else 91))
        self.maps = {}
        for n in (1, 2):
            pf = "%s/maps_n%d.txt" % (self.wd, n)
            self.model("MC_Clifford", "MC_Clifford_maps_n%d.cfg" % n, name="maps_n%d" % n, print_file=pf,
                       expect_distinct=(24 if n == 1 else 11520))
            self.maps[n] = [m for m, _ in read_maps(pf)]
        self.big = []
        nb = 40 if self.tier == "thorough" else 6
        for n in (3, 4):
            r = self.model("MC_RotSim", "MC_RotSim_n%d.cfg" % n, name="rotsim_n%d" % n, workers=1, simulate="num=%d" % nb,
                           depth=9, seed=self.seed + 50 + n, collect=True)
            for e in r.printed:
                if e[0] == "S" and e[1] % 3 == 0:
                    self.big.append((n, e[3], e))

    def _poly(self, n, rng, nterms):
        terms = []
        for _ in range(nterms):
            w = [rng.randrange(4) for _ in range(n)] + [rng.randrange(4)]
            terms.append({"p": w, "c": [rng.randrange(-4, 5), rng.randrange(-4, 5)]})
        return terms

    def scenarios(self):
        thorough = self.tier == "thorough"
        rng = self.rng
        for n in (1, 2):
            maps = self.maps[n]
            tabs = [(m, r) for m in maps for r in range(n + 1)]
            pick = tabs if (n == 1 or thorough) else rng.sample(tabs, 2000)
            herm = enum.herm(n)
            allp = enum.paulis(n)
            bits = [list(b) for b in itertools.product((0, 1), repeat=n)]
            for i, (m, r) in enumerate(pick):
                rows = ins_to_state(m)
                tor = (n == 1) or (i % (4 if thorough else 14) == 0)
                s = {"k": "expect", "rows": rows, "r": r, "obs": herm}
                if not tor:
                    s["pkg"] = "py"
                yield s
                # Pauli / monomial / polynomial observables with all four phases and complex coefficients
                for kind in ("pauli", "monomial", "poly1", "poly"):
                    if kind == "pauli":
                        terms = [{"p": rng.choice(allp), "c": [1, 0]}]
                    elif kind == "monomial":
                        terms = [{"p": rng.choice(allp), "c": [rng.randrange(-3, 4), rng.randrange(-3, 4)]}]
                    elif kind == "poly1":
                        terms = [{"p": p, "c": [1, 0]} for p in allp[(i % 4)::4]]
                    else:
                        terms = self._poly(n, rng, rng.randrange(1, 7))
                    s = {"k": "expect_poly", "kind": kind, "rows": rows, "r": r, "terms": terms, "e": rng.randrange(0, 4)}
                    if not tor or kind == "monomial":
                        s["pkg"] = "py"
                    yield s
                # overlaps with other states of every rank
                for t in range(6 if n == 2 else 24):
                    m2, r2 = tabs[(i * 131 + t * 977 + 7) % len(tabs)] if n == 2 else tabs[(i + t * 3) % len(tabs)]
                    s = {"k": "overlap", "rows": rows, "r": r, "other": {"rows": ins_to_state(m2), "r": r2}}
                    if not tor:
                        s["pkg"] = "py"
                    yield s
                yield {"k": "overlap", "rows": rows, "r": r, "other": {"rows": rows, "r": r}, "pkg": "py"}
                s = {"k": "prob", "rows": rows, "r": r, "bits": bits}
                if not tor:
                    s["pkg"] = "py"
                yield s
        # observables that are views of the state's own arrays (its stabilizers, its whole tableau), and queries on ONE live
        # state object between in-place changes (rotation, measurement, gate)
        for n in (1, 2):
            tabs = [(m, r) for m in self.maps[n] for r in range(n + 1)]
            for j, (m, r) in enumerate(tabs if n == 1 else rng.sample(tabs, 150)):
                yield {"k": "expect_self", "rows": ins_to_state(m), "r": r, "what": ("stabilizers", "all")[j % 2], "pkg": "py"}
                if j % 3 == 0:
                    yield {"k": "live", "rows": ins_to_state(m), "r": r, "seed": self.seed + j,
                           "ops": [[rng.randrange(4) for _ in range(n)] + [rng.choice((0, 2))] for _ in range(5)], "pkg": "py"}
        DTS = (("uint8", "int64"), ("int8", "int32"), ("uint64", "uint8"), ("float64", "int64"), ("uint8", "uint8"), ("int32", "float64"), ("int64", "uint16"))
        for n in (1, 2):
            tabs = [(m, r) for m in self.maps[n] for r in range(n + 1)]
            for j, (m, r) in enumerate(tabs if n == 1 else rng.sample(tabs, 120)):
                yield {"k": "expect", "rows": ins_to_state(m), "r": r, "obs": enum.herm(n), "dt": list(DTS[j % 7]), "pkg": "py"}
        for n in (1, 2):
            tabs = [(m, r) for m in self.maps[n] for r in range(n + 1)]
            for j, (m, r) in enumerate(tabs[:12] if n == 1 else rng.sample(tabs, 60)):
                yield {"k": "expect", "rows": ins_to_state(m), "r": r, "obs": enum.herm(n), "ro": True, "pkg": "py"}
        for nw in (36, 70):
            for s in self._wide(nw):
                yield s
        from .c03 import group_elements
        for bi, (n, m, e) in enumerate(self.big):
            rows = ins_to_state(m)
            bits = [list(b) for b in itertools.product((0, 1), repeat=n)]
            for r in range(n + 1):
                obs = [[rng.randrange(4) for _ in range(n)] + [rng.choice((0, 2))] for _ in range(24)]
                # make sure signed elements of the state's own group and logical operators are present
                obs += [w[:-1] + [(w[-1] + 2 * rng.randrange(2)) % 4] for w in rows[:n]]
                # products of up to n generators with exact signs (non-zero expectations), both signs
                ge = group_elements(e, r)
                obs += [w[:-1] + [(w[-1] + 2 * rng.randrange(2)) % 4] for w in ge]
                yield {"k": "expect", "rows": rows, "r": r, "obs": obs}
                yield {"k": "expect_poly", "kind": "poly", "rows": rows, "r": r, "terms": self._poly(n, rng, 6) + [{"p": rows[n - 1][:-1] + [1], "c": [2, -1]}] +
                       [{"p": w[:-1] + [(w[-1] + rng.randrange(4)) % 4], "c": [rng.randrange(-3, 4), rng.randrange(-3, 4)]} for w in ge[:5]], "e": 2}
                # the same kind of polynomial with very small coefficients (k / 2^20: below any pruning tolerance one might
                # be tempted to apply; exactly representable in single precision)
                yield {"k": "expect_poly", "kind": "poly", "rows": rows, "r": r, "terms": [{"p": w[:-1] + [(w[-1] + 2 * rng.randrange(2)) % 4], "c": [rng.choice((1, -1, 3, 5)), 0]} for w in (ge[:4] or rows[r:n][:2])] +
                       [{"p": rows[n - 1][:-1] + [1], "c": [0, 3]}], "e": 20, "fine": 30}
                yield {"k": "expect_poly", "kind": "poly", "rows": rows, "r": r, "terms": [{"p": w[:-1] + [(w[-1] + 2 * rng.randrange(2)) % 4], "c": [rng.choice((1, -1, 3, 5)), 0]} for w in (ge[:4] or rows[r:n][:2])] +
                       [{"p": rows[n - 1][:-1] + [1], "c": [0, 3]}], "e": 36, "fine": 44, "pkg": "py"}
                yield {"k": "expect_poly", "kind": "monomial" , "rows": rows, "r": r, "terms": [{"p": (ge[0] if ge else rows[n - 1]), "c": [3, 0]}], "e": 22, "fine": 30, "pkg": "py"}
                n2, m2, _e2 = self.big[(bi * 5 + 1) % len(self.big)]
                if n2 == n:
                    yield {"k": "overlap", "rows": rows, "r": r, "other": {"rows": ins_to_state(m2), "r": rng.randrange(n + 1)}}
                yield {"k": "prob", "rows": rows, "r": r, "bits": bits if n <= 3 else bits[::3]}

    def _wide(self, n=36):
        """a wide register (N = 36; N = 70, across the 64-bit word boundary) in a highly mixed product state: only the last 3 qubits carry (signed) stabilizers,
        so the stabilizer group has 8 elements and TLC can still decide every expectation value"""
        rng = self.rng
        m = []
        for q in range(n):
            m1 = rng.choice(self.maps[1])
            for row in m1:
                w = [0] * n + [row[-1]]
                w[q] = row[0]
                m.append(w)
        rows = ins_to_state(m)
        r = n - 3
        act = rows[r:n]
        terms = [{"p": [0] * n + [rng.randrange(4)], "c": [3, -1]}]
        for a in act:
            terms.append({"p": a[:-1] + [(a[-1] + rng.randrange(4)) % 4], "c": [rng.randrange(1, 4), rng.randrange(-2, 3)]})
        # product of two stabilizers (letters are on different qubits, so the string is the union; the sign is the
        # product of the two signs) and a few strings outside the group
        two = [max(x, y) for x, y in zip(act[0][:-1], act[1][:-1])] + [(act[0][-1] + act[1][-1]) % 4]
        terms.append({"p": two, "c": [2, 1]})
        for _ in range(4):
            w = [0] * n + [rng.randrange(4)]
            w[rng.randrange(n - 6, n)] = rng.randrange(1, 4)
            w[rng.randrange(0, 5)] = rng.randrange(0, 4)
            terms.append({"p": w, "c": [1, 1]})
        obs = [t["p"][:-1] + [rng.choice((0, 2))] for t in terms]
        yield {"k": "expect", "rows": rows, "r": r, "obs": obs}
        yield {"k": "expect_poly", "kind": "poly", "rows": rows, "r": r, "terms": terms, "e": 1, "pkg": "py"}
        yield {"k": "expect_poly", "kind": "poly", "rows": rows, "r": r, "terms": terms[:5], "e": 0, "pkg": "torch"}

    def execute(self, scn, be):
        k = scn["k"]
        pre = {"rows": scn["rows"], "r": scn["r"]}
        n = len(scn["rows"]) // 2
        recs = []
        try:
            S = be.state(scn["rows"], scn["r"])
        except Exception as e:
            return [{"op": k, "pre": pre, "exc": _exc(e)}]
        if k == "expect_self":
            rec = {"op": "expect", "fn": "expect(view of self)", "pre": pre}
            try:
                O = S.stabilizers if scn["what"] == "stabilizers" else S[:]
                rec["obs"] = be.p_list(O)
                if not all(w[-1] in (0, 2) for w in rec["obs"]):
                    return []
                rec["vals"] = be.p_ints(S.expect(O))
                rec["pre1"] = be.p_state(S)
            except Exception as e:
                rec["exc"] = _exc(e)
            return [rec]
        if k == "live":
            out = []
            ops = scn["ops"]
            try:
                for t, g in enumerate(ops):
                    cur = be.p_state(S)
                    rec = {"op": "expect", "fn": "live", "pre": cur, "obs": ops}
                    rec["vals"] = be.p_ints(S.expect(be.plist(ops)))
                    rec["pre1"] = be.p_state(S)
                    out.append(rec)
                    if any(g[:-1]):
                        if t % 3 == 0:
                            S.rotate_by(be.pauli(g))
                        elif t % 3 == 1:
                            be.seed(scn["seed"] + t)
                            S.measure(be.plist([g]))
                        else:
                            be.circuit.H(t % n).forward(S)
            except Exception as e:
                out.append({"op": "expect", "fn": "live", "pre": pre, "exc": _exc(e)})
            return out
        if k == "expect":
            calls = [("StabilizerState.expect", lambda O: S.expect(O))]
            calls.append(("stabilizer_expect", lambda O: be.utils.stabilizer_expect(S.gs, S.ps, O.gs, O.ps, S.r)))
            if be.name == "torch":
                calls.append(("vectorizable_stabilizer_expect", lambda O: be.utils.vectorizable_stabilizer_expect(S.gs, S.ps, O.gs, O.ps, S.r)))
                calls.append(("vectorizable_expct", lambda O: be.stabilizer.vectorizable_expct([S, S.copy()], O)[1]))
            for fn, call in calls:
                rec = {"op": "expect", "fn": fn, "pre": pre, "obs": scn["obs"]}
                try:
                    O = be.plist(scn["obs"])
                    if scn.get("ro"):
                        be.freeze(O)         # observables are only read
                        rec["ro"] = True
                    if scn.get("dt"):
                        # element types of the user's observable arrays; a refusal is accepted, a returned value must be right
                        rec["dt"] = scn["dt"]
                        try:
                            O = be.retype(O, *scn["dt"])
                            vals = call(O)
                        except Exception:
                            continue
                        # the value is what the user sees: 255 is not -1
                        rec["vals"] = [int(v) if float(v) == int(v) and abs(int(v)) < 2 ** 30 else -99 for v in be.tolist(vals)]
                        rec["pre1"] = be.p_state(S)
                        recs.append(rec)
                        continue
                    rec["vals"] = be.p_ints(call(O))
                    rec["pre1"] = be.p_state(S)
                except Exception as e:
                    rec["exc"] = _exc(e)
                recs.append(rec)
        elif k == "expect_poly":
            rec = {"op": "expect_poly", "kind": scn["kind"], "pre": pre, "terms": scn["terms"], "e": scn["e"]}
            try:
                den = 2.0 ** scn["e"]
                terms = scn["terms"]
                if scn["kind"] == "pauli":
                    obs = be.pauli(terms[0]["p"])
                    rec["e"] = 0
                elif scn["kind"] == "monomial":
                    P = be.pauli(terms[0]["p"])
                    obs = be.paulialg.PauliMonomial(P.g, P.p).set_c(complex(*terms[0]["c"]) / den)
                else:
                    obs = be.poly([t["p"] for t in terms], [complex(*t["c"]) / den for t in terms])
                # (single precision: powers of i carry ~1e-7 relative noise; in units of 2^-30 that is far below 0.05,
                # while a dropped term of size 2^-20 is 1024 units)
                rec["val"] = cval(S.expect(obs), scn.get("fine"), 0.05 if be.name == "torch" else 1e-6)
                rec["pre1"] = be.p_state(S)
            except Exception as e:
                rec["exc"] = _exc(e)
            recs.append(rec)
        elif k == "overlap":
            rec = {"op": "overlap", "pre": pre, "other": scn["other"]}
            try:
                T = be.state(scn["other"]["rows"], scn["other"]["r"])
                try:
                    v = S.expect(T)
                    d = dyadic(v)
                    rec["val"] = d if d is not None else [7, 20]
                except NotImplementedError as e:
                    rec["refused"] = _exc(e)
                    rec["mixed_receiver"] = scn["r"] != 0
                rec["pre1"] = be.p_state(S)
                rec["other1"] = be.p_state(T)
            except Exception as e:
                rec["exc"] = _exc(e)
            recs.append(rec)
        elif k == "prob":
            rec = {"op": "prob", "pre": pre, "bits": scn["bits"]}
            try:
                vals = []
                for b in scn["bits"]:
                    v = S.get_prob(be.ivec(b) if be.name == "torch" else be.ivec(b))
                    d = dyadic(v)
                    vals.append(d if d is not None else [7, 20])
                rec["vals"] = vals
                rec["pre1"] = be.p_state(S)
            except NotImplementedError as e:
                rec["refused"] = _exc(e)
                rec["mixed_receiver"] = scn["r"] != 0
            except Exception as e:
                rec["exc"] = _exc(e)
            recs.append(rec)
        return recs


PROP = C07
