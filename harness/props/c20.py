"""C20  Operator descriptions, printing, tokens and indexing round-trip."""
import numpy
from ..core import Prop
from .. import tlc, enum
from ..backend import _as_int
from .c02 import _exc

CH = {0: "I", 1: "X", 2: "Y", 3: "Z", 4: "+", 5: "-", 8: "i", 9: " "}
TOK = {v: k for k, v in CH.items()}


def text_tokens(s):
    return [TOK.get(c, 99) for c in s]


class C20(Prop):
    id = "C20"
    refusal_family = "syntax"
    trace_module = "TraceC20"
    trace_cfg = "TraceC20.cfg"
    backends = ("py", "torch")
    chunk = 4000
    exhaustive = True
    assumptions = [
        "TLC proves Parse(Print P) = P, Parse(Tokenize P) = P and that every description of P parses to P for all operators N<=3, and the token formulas of pauli_tokenize against the table",
        "characters are mapped to token numbers by the harness (I X Y Z + - i blank); slices are expanded to index lists with Python's own range(L)[slice]",
        "exhaustive over all strings x 4 phases x all description forms for N<=3; lists and index expressions are seeded samples",
    ]
    rule = "one record per pauli()/paulis()/repr/tokenize/indexing/scaling call"

    def models(self):
        self.descs = []
        for n in (1, 2, 3):
            r = self.model("MC_C20", "MC_C20_n%d.cfg" % n, name="syntax_n%d" % n, collect=True)
            self.descs += [e for e in r.printed if e[0] == "D"]

    def scenarios(self):
        rng = self.rng
        for e in self.descs:
            p, ds = e[1], e[2]
            for d in ds:
                if all(t in CH for t in d):
                    yield {"k": "parse", "fmt": "str", "tokens": d}
                    yield {"k": "parse", "fmt": "chars", "tokens": d, "pkg": "py"}
                if all(t <= 7 for t in d):
                    yield {"k": "parse", "fmt": "list", "tokens": d}
                    yield {"k": "parse", "fmt": "tuple", "tokens": d, "pkg": "py"}
                    yield {"k": "parse", "fmt": "array", "tokens": d}
            yield {"k": "repr", "p": p}
            yield {"k": "tokenize", "p": p}
            yield {"k": "weight", "p": p}
            n = len(p) - 1
            if p[-1] == 0:
                items = [[q + 1, p[q]] for q in range(n) if p[q] != 0]
                rng.shuffle(items)
                yield {"k": "parsedict", "n": n, "items": items}
        # printing of maps and states (model drift only): the identity and a signed CNOT-like map, tableaux of every rank
        for n in (1, 2, 3, 10):
            idm = [[(1 if j % 2 == 0 else 3) if q == j // 2 else 0 for q in range(n)] + [0] for j in range(2 * n)]
            yield {"k": "maprepr", "m": idm}
            if n == 2:
                yield {"k": "maprepr", "m": [[1, 1, 2], [3, 0, 0], [0, 1, 0], [3, 3, 2]]}
            for r in range(min(n, 3) + 1):
                rows = [w for j, w in enumerate(idm) if j % 2 == 1] + [w for j, w in enumerate(idm) if j % 2 == 0]
                yield {"k": "staterepr", "rows": [w[:-1] + [2 * ((i + r) % 2)] for i, w in enumerate(rows)], "r": r}
        for t in range(12):
            n = 1 + t % 3
            yield {"k": "tokenizelist", "ops": [[rng.randrange(4) for _ in range(n)] + [rng.randrange(4)] for _ in range(4)],
                   "g": [1 + rng.randrange(3) for _ in range(n)] + [rng.choice((0, 2))]}
        for L in (1, 5, 50, 100, 101, 150):
            yield {"k": "listrepr", "ops": [[rng.randrange(4) for _ in range(3)] + [rng.randrange(4)] for _ in range(L)]}
        # registers across the 64-bit word boundary
        for n in (63, 64, 65, 70, 130):
            for t in range(4):
                p = [rng.randrange(4) if (t % 2 == 0 or rng.random() < 0.1) else 0 for _ in range(n)] + [rng.randrange(4)]
                p[n - 1] = p[n - 1] or 2
                pre = {0: [[], [4]][t % 2], 1: [[8], [4, 8]][t % 2], 2: [5], 3: [5, 8]}[p[-1]]
                yield {"k": "parse", "fmt": "str", "tokens": pre + p[:-1]}
                yield {"k": "parse", "fmt": "array", "tokens": p[:-1] + [{0: 4, 1: 6, 2: 5, 3: 7}[p[-1]]]}
                yield {"k": "repr", "p": p}
                yield {"k": "tokenize", "p": p}
                yield {"k": "weight", "p": p}
                if p[-1] == 0:
                    items = [[q + 1, p[q]] for q in range(n) if p[q] != 0]
                    rng.shuffle(items)
                    yield {"k": "parsedict", "n": n, "items": items}
        # lists
        for t in range(300 if self.tier == "thorough" else 80):
            n = rng.choice((1, 2, 3, 4, 6, 9, 65))
            L = rng.randrange(1, 7)
            descs = []
            for _ in range(L):
                k = rng.randrange(4)
                pre = {0: rng.choice(([], [4])), 1: rng.choice(([8], [4, 8])), 2: [5], 3: [5, 8]}[k]
                descs.append(pre + [rng.randrange(4) for _ in range(n)])
            yield {"k": "list", "descs": descs, "how": rng.choice(("args", "list", "plist"))}
            ops = [[rng.randrange(4) for _ in range(n)] + [rng.randrange(4)] for _ in range(L)]
            yield {"k": "select", "kind": "int", "ops": ops, "idx": rng.randrange(L) + 1}
            yield {"k": "select", "kind": "int", "ops": ops, "idx": rng.randrange(L) + 1, "itype": rng.choice(("int64", "int32", "uint8", "intp")), "pkg": "py"}
            yield {"k": "select", "kind": "int", "ops": ops, "idx": rng.randrange(L) + 1, "neg": True}
            a, b, st = rng.randrange(-L, L + 1), rng.randrange(-L, L + 2), rng.choice((None, 1, 2, -1))
            yield {"k": "select", "kind": "slice", "ops": ops, "slice": [a, b, st]}
            yield {"k": "select", "kind": "mask", "ops": ops, "mask": [rng.random() < 0.5 for _ in range(L)]}
            # the same kind of mask written as a plain Python list / tuple of bools (what mask.tolist() gives)
            yield {"k": "select", "kind": "mask", "ops": ops, "mask": [rng.random() < 0.5 for _ in range(L)], "mform": ("list", "tuple")[t % 2], "pkg": "py"}
            yield {"k": "select", "kind": "array", "ops": ops, "idx": [rng.randrange(L) + 1 for _ in range(rng.randrange(1, 5))]}
            for e in range(4):
                yield {"k": "scale", "ops": ops, "e": e, "obj": rng.choice(("list", "pauli"))}
            yield {"k": "scale", "ops": ops, "e": 2, "obj": "neg"}
            for e in range(4):
                yield {"k": "scale", "ops": ops, "e": e, "obj": rng.choice(("list", "pauli")), "ctype": ("npscalar", "np0d", "tensor", "tensor64")[(t + e) % 4]}

    def execute(self, scn, be):
        k = scn["k"]
        P = be.paulialg
        rec = {"op": k}
        try:
            if k == "parse":
                d = scn["tokens"]
                rec["tokens"], rec["fmt"] = d, scn["fmt"]

                def mk():
                    if scn["fmt"] == "str":
                        return "".join(CH[t] for t in d)
                    if scn["fmt"] == "chars":
                        return [CH[t] for t in d]
                    if scn["fmt"] == "list":
                        return list(d)
                    if scn["fmt"] == "tuple":
                        return tuple(d)
                    return numpy.array(d) if be.name == "py" else be.torch.tensor(d)
                x = P.pauli(mk())
                rec["ret"] = be.p_pauli(x)
                # the same description parsed AGAIN after the caller changed the first result in place (its own object: the
                # letters through the public array, and a rotation by a single-letter generator): same operator as before
                try:
                    x.g[...] = 1 - x.g
                    x.rotate_by(be.pauli([1] + [0] * (len(be.p_pauli(x)) - 2) + [0]))
                except Exception:
                    pass
                rec["ret2"] = be.p_pauli(P.pauli(mk()))
            elif k == "parsedict":
                rec["n"], rec["items"] = scn["n"], scn["items"]
                d = {q - 1: (l if (q + l) % 2 else "IXYZ"[l]) for q, l in scn["items"]}
                rec["ret"] = be.p_pauli(P.pauli(d, scn["n"]))
            elif k == "repr":
                rec["p"] = scn["p"]
                x = be.pauli(scn["p"])
                txt = repr(x)
                rec["text"] = text_tokens(txt)
                rec["back"] = be.p_pauli(P.pauli(txt))
            elif k in ("maprepr", "staterepr"):
                if k == "maprepr":
                    rec["m"] = scn["m"]
                    obj = be.cmap(scn["m"])
                else:
                    rec["pre"] = {"rows": scn["rows"], "r": scn["r"]}
                    obj = be.state(scn["rows"], scn["r"])
                txt = repr(obj)
                rec["text"] = txt if len(txt) < 40 else ""
                parts = txt.split("\n")
                rec["head"], rec["tail"] = parts[0], txt[-1:]
                lines = []
                for ln in parts[1:]:
                    if ln.endswith(")") and ln is parts[-1]:
                        ln = ln[:-1]
                    pre, sep, rest = ln.partition("->")
                    if not sep:           # states: two blanks of indentation, then the printed operator
                        pre, rest = ln[:2], ln[2:]
                    lines.append({"pre": pre, "toks": text_tokens(rest)})
                rec["lines"] = lines
            elif k == "tokenizelist":
                out = []
                L = be.plist(scn["ops"])
                for t in range(3):
                    r_ = {"op": "tokenizelist", "ops": be.p_list(L), "live": t}
                    r_["toks"] = [be.p_ints(row) for row in L.tokenize()]
                    out.append(r_)
                    if t == 0:
                        L.rotate_by(be.pauli(scn["g"]))            # in place: the arrays stay, their content changes
                    else:
                        L.ps[0] = (L.ps[0] + 1) % 4
                return out
            elif k == "listrepr":
                rec["ops"] = scn["ops"]
                rec["lines"] = [text_tokens(ln) for ln in repr(be.plist(scn["ops"])).split("\n")]
            elif k == "tokenize":
                rec["p"] = scn["p"]
                x = be.pauli(scn["p"])
                ts = x.tokenize()
                row = be.p_ints(ts[0])
                rec["toks"] = row
                rec["back"] = be.p_pauli(P.pauli(ts[0] if be.name == "torch" else numpy.array(row)))
            elif k == "weight":
                rec["p"] = scn["p"]
                x = be.pauli(scn["p"])
                w, n = _as_int(x.weight()), _as_int(x.N)
                rec["w"], rec["N"] = (-1 if w is None else w), (-1 if n is None else n)
            elif k == "list":
                rec["descs"] = scn["descs"]
                strs = ["".join(CH[t] for t in d) for d in scn["descs"]]
                if scn["how"] == "args":
                    L = P.paulis(*strs)
                elif scn["how"] == "list":
                    L = P.paulis(strs)
                else:
                    L = P.paulis(P.paulis(strs))
                rec["ret"] = be.p_list(L)
                rec["L"], rec["len"], rec["N"] = _as_int(L.L), len(L), _as_int(L.N)
                rec["weights"] = be.p_ints(L.weight())
            elif k == "select":
                ops = scn["ops"]
                rec["ops"], rec["kind"] = ops, scn["kind"]
                L = be.plist(ops)
                if scn["kind"] == "int":
                    rec["idx"] = scn["idx"]
                    i0 = scn["idx"] - 1
                    if scn.get("neg"):
                        i0 = i0 - len(ops)          # the same element addressed from the end
                    if scn.get("itype"):
                        i0 = getattr(numpy, scn["itype"])(i0)
                        rec["itype"] = scn["itype"]
                    rec["ret"] = be.p_pauli(L[i0])
                elif scn["kind"] == "slice":
                    a, b, st = scn["slice"]
                    sl = slice(a, b, st)
                    rec["idx"] = [j + 1 for j in range(len(ops))[sl]]
                    if st is not None and st < 0 and be.name == "torch":
                        return []          # torch tensors do not support negative steps at all
                    rec["ret"] = be.p_list(L[sl])
                elif scn["kind"] == "mask":
                    rec["mask"] = scn["mask"]
                    m = numpy.array(scn["mask"], dtype=bool) if be.name == "py" else be.bvec(scn["mask"])
                    if scn.get("mform"):
                        rec["mform"] = scn["mform"]
                        m = [bool(b) for b in scn["mask"]]
                        if scn["mform"] == "tuple":
                            m = list(m)        # (numpy reads a tuple as a multi-axis index: a list is the portable spelling)
                        try:
                            rec["ret"] = be.p_list(L[m])
                        except Exception:
                            return []          # refusing plain-Python masks is accepted; a wrong selection is not
                        return [rec]
                    rec["ret"] = be.p_list(L[m])
                else:
                    rec["idx"] = scn["idx"]
                    ix = numpy.array([j - 1 for j in scn["idx"]]) if be.name == "py" else be.torch.tensor([j - 1 for j in scn["idx"]])
                    rec["ret"] = be.p_list(L[ix])
            elif k == "scale":
                ops, e = scn["ops"], scn["e"]
                rec["ops"], rec["e"], rec["obj"] = ops, e, scn["obj"]
                c = (1, 1j, -1, -1j)[e]
                if scn.get("ctype"):
                    # the same unit held in a numpy scalar, a 0-d numpy array or a 0-d tensor (a refusal is accepted)
                    rec["ctype"] = scn["ctype"]
                    ct = scn["ctype"]
                    if ct.startswith("tensor") and be.name != "torch":
                        ct = "npscalar"
                    if ct == "npscalar":
                        c = numpy.complex128(c) if e % 2 else numpy.float64(c.real if isinstance(c, complex) else c)
                    elif ct == "np0d":
                        c = numpy.array(c)
                    elif ct == "tensor":
                        c = be.torch.tensor(c if e % 2 else float(c.real if isinstance(c, complex) else c))
                    else:
                        c = be.torch.tensor(c, dtype=be.torch.complex128)
                    try:
                        if scn["obj"] == "list":
                            r_ = c * be.plist(ops)
                            if not hasattr(r_, "gs") or hasattr(r_, "cs"):
                                return []
                            rec["ret"] = be.p_list(r_)
                        else:
                            outs_ = []
                            for w in ops:
                                r_ = c * be.pauli(w)
                                if not hasattr(r_, "g") or hasattr(r_, "c"):
                                    return []          # (promoted to a weighted operator: judged under C15)
                                outs_.append(be.p_pauli(r_))
                            rec["ret"] = outs_
                    except (NotImplementedError, TypeError):
                        return []
                    return [rec]
                if scn["obj"] == "list":
                    rec["ret"] = be.p_list(c * be.plist(ops))
                elif scn["obj"] == "neg":
                    rec["ret"] = be.p_list(-be.plist(ops))
                else:
                    rec["ret"] = [be.p_pauli(c * be.pauli(w)) for w in ops]
        except Exception as e:
            rec["exc"] = _exc(e)
        return [rec]


PROP = C20
