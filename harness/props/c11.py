"""C11  Named gates are the textbook Cliffords; C(0..23) enumerates the 1-qubit group."""
import itertools
from ..core import Prop
from .. import enum
from .c02 import _exc


class C11(Prop):
    id = "C11"
    trace_module = "TraceClifford"
    trace_cfg = "TraceClifford.cfg"
    backends = ("py",)
    exhaustive = True
    assumptions = [
        "textbook tables GateH..GateCNOT are written in spec/Clifford.tla and grounded in Gaussian-integer matrices by MC_C11 (H' = X+Z, S = diag(1,i), CNOT 0/1 matrix)",
        "placements enumerated for registers N = 1..4; the gate's action is observed by gate.forward(identity_map(N)) and through a Circuit",
    ]
    rule = "finite and exhaustive: 6 named gates x all placements (both CNOT orientations) in registers N<=4, all 24 C(k), error cases; one record per constructed gate / placement"

    def models(self):
        self.model("MC_C11", "MC_C11.cfg", name="gates_ground")

    def scenarios(self):
        for name in ("H", "S", "X", "Y", "Z"):
            yield {"k": "gate", "name": name, "qubits": [0]}
            for n in (1, 2, 3, 4):
                for q in range(n):
                    for via in ("gate", "circuit", "clifford_circuit"):
                        yield {"k": "action", "name": name, "qubits": [q], "n": n, "via": via}
        yield {"k": "gate", "name": "CNOT", "qubits": [0, 1]}
        yield {"k": "gate", "name": "CNOT", "qubits": [1, 0]}
        for n in (2, 3, 4):
            for c, t in itertools.permutations(range(n), 2):
                for via in ("gate", "circuit", "clifford_circuit"):
                    yield {"k": "action", "name": "CNOT", "qubits": [c, t], "n": n, "via": via}
        # qubit arguments of numpy integer types (signed and unsigned), both CNOT orientations
        for n in (2, 3, 6):
            for c, t in itertools.permutations(range(n), 2):
                if n == 6 and (c + t) % 3:
                    continue
                for ty in ("int64", "uint8", "int32", "uint64"):
                    yield {"k": "action", "name": "CNOT", "qubits": [c, t], "n": n, "via": "gate", "qtype": ty}
            for q in range(n):
                yield {"k": "action", "name": ("H", "S", "X")[q % 3], "qubits": [q], "n": n, "via": "circuit", "qtype": "uint8"}
        # placements across the 64-bit word boundary of a 66-qubit register
        for c, t in ((62, 63), (63, 64), (64, 63), (64, 65), (65, 0), (0, 65), (63, 65)):
            for via in ("gate", "circuit", "clifford_circuit"):
                yield {"k": "action", "name": "CNOT", "qubits": [c, t], "n": 66, "via": via, "pkg": "py"}
        for q in (63, 64, 65):
            for name in ("H", "S", "X", "Y", "Z"):
                yield {"k": "action", "name": name, "qubits": [q], "n": 66, "via": ("gate", "circuit", "clifford_circuit")[q % 3], "pkg": "py"}
        # narrow numpy integer qubit labels on wide registers (int8 holds 0..127, uint8 0..255: twice the label must not wrap)
        for q, ty, n in ((64, "int8", 96), (70, "int8", 96), (95, "int8", 96), (127, "int8", 130), (100, "uint8", 130), (129, "uint8", 130), (200, "int16", 201)):
            for name in ("H", "S", "X"):
                yield {"k": "action", "name": name, "qubits": [q], "n": n, "via": ("gate", "circuit", "clifford_circuit")[q % 3], "qtype": ty, "pkg": "py"}
        for c, t, ty, n in ((64, 65, "int8", 96), (100, 3, "int8", 130), (3, 127, "int8", 130), (128, 129, "uint8", 130)):
            yield {"k": "action", "name": "CNOT", "qubits": [c, t], "n": n, "via": "gate", "qtype": ty, "pkg": "py"}
        for name, qs1, qs2 in (("H", [3], [9]), ("S", [2], [11]), ("X", [4], [8]), ("CNOT", [3, 4], [8, 9]), ("CNOT", [10, 9], [4, 3])):
            yield {"k": "printopts", "name": name, "qubits": [qs1, qs2, qs1], "n": 14, "pkg": "py"}
        for name, qs in (("H", [1]), ("S", [0]), ("X", [1]), ("Y", [0]), ("Z", [1]), ("CNOT", [0, 1]), ("CNOT", [1, 0])):
            yield {"k": "reuse", "name": name, "qubits": qs, "widths": [3, 2, 4, 2, 66, 3], "pkg": "py"}
        yield {"k": "ctable"}
        for n in (1, 2, 3):
            for q in range(n):
                for kk in range(24):
                    yield {"k": "caction", "num": kk, "q": q, "n": n}
        for name, args in (("C", [24, 0]), ("C", [-1, 0]), ("C", [100, 0]), ("C", [0, 0, 1]), ("C", [0]),
                           ("H", [0, 1]), ("H", []), ("S", [0, 1]), ("X", [1, 2]), ("Y", []), ("Z", [0, 1, 2]),
                           ("CNOT", [0]), ("CNOT", [0, 1, 2]), ("CNOT", [])):
            yield {"k": "err", "name": name, "args": args}

    def execute(self, scn, be):
        k = scn["k"]
        C = be.circuit
        try:
            if k == "gate":
                rec = {"op": "gate", "name": "CNOTrev" if scn["qubits"] == [1, 0] else scn["name"]}
                g = getattr(C, scn["name"])(*scn["qubits"])
                rec["ret"] = be.p_list(g.forward_map)
                # the caller changes, in place, the table of the gate it was given; the next gate of the same name is
                # still the textbook gate
                nq = len(scn["qubits"])
                g.forward_map.rotate_by(be.pauli([1] + [0] * (nq - 1) + [0]))
                g.forward_map.rotate_by(be.pauli([0] * (nq - 1) + [3] + [2]))
                rec["ret2"] = be.p_list(getattr(C, scn["name"])(*scn["qubits"]).forward_map)
                return [rec]
            if k == "printopts":
                import numpy
                out = []
                with numpy.printoptions(threshold=6, edgeitems=1):
                    for qs in scn["qubits"]:
                        name = scn["name"]
                        if name == "CNOT" and qs[0] > qs[1]:
                            name = "CNOTrev"
                        rec = {"op": "gate_action", "name": name, "qs": sorted(q + 1 for q in qs), "n": scn["n"], "via": "printopts", "raw": qs}
                        try:
                            obj = be.stabilizer.identity_map(scn["n"])
                            getattr(C, scn["name"])(*qs).forward(obj)
                            rec["imgs"] = be.p_list(obj)
                        except Exception as e:
                            rec["exc"] = _exc(e)
                        out.append(rec)
                return out
            if k == "reuse":
                qs = scn["qubits"]
                name = scn["name"]
                if name == "CNOT" and qs[0] > qs[1]:
                    name = "CNOTrev"
                g = getattr(C, scn["name"])(*qs)          # one gate object for all the registers below
                out = []
                for t, n_ in enumerate(scn["widths"]):
                    rec = {"op": "gate_action", "name": name, "qs": sorted(q + 1 for q in qs), "n": n_, "via": "reuse", "raw": qs}
                    try:
                        obj = be.stabilizer.identity_map(n_)
                        if t % 2:
                            g.backward(obj)
                            g.forward(obj)
                        g.forward(obj)
                        rec["imgs"] = be.p_list(obj)
                    except Exception as e:
                        rec["exc"] = _exc(e)
                    out.append(rec)
                return out
            if k == "action":
                qs = scn["qubits"]
                name = scn["name"]
                if name == "CNOT" and qs[0] > qs[1]:
                    name = "CNOTrev"
                rec = {"op": "gate_action", "name": name, "qs": sorted(q + 1 for q in qs), "n": scn["n"], "via": scn["via"], "raw": qs}
                import numpy
                args = [getattr(numpy, scn["qtype"])(q) for q in qs] if scn.get("qtype") else qs
                if scn.get("qtype"):
                    rec["qtype"] = scn["qtype"]
                g = getattr(C, scn["name"])(*args)
                obj = be.stabilizer.identity_map(scn["n"])
                if scn["via"] == "gate":
                    g.forward(obj)
                elif scn["via"] == "circuit":
                    c = C.Circuit(scn["n"])
                    c.take(g)
                    c.forward(obj)
                else:
                    c = C.CliffordCircuit(scn["n"])
                    c.take(g)
                    c.forward(obj)
                rec["imgs"] = be.p_list(obj)
                return [rec]
            if k == "ctable":
                rec = {"op": "ctable"}
                gates = [C.C(i, 0) for i in range(24)]
                rec["maps"] = [be.p_list(g.forward_map) for g in gates]
                # the 24 gates handed out are changed in place by their owner; the enumeration asked for again is the same
                for g in gates:
                    g.forward_map.rotate_by(be.pauli([1, 0]))
                    g.forward_map.rotate_by(be.pauli([3, 2]))
                rec["maps2"] = [be.p_list(C.C(i, 0).forward_map) for i in range(24)]
                return [rec]
            if k == "caction":
                # C(k) placed on qubit q acts as the embedded table entry
                g = C.C(scn["num"], scn["q"])
                ms = be.p_list(g.forward_map)
                obj = be.stabilizer.identity_map(scn["n"])
                g.forward(obj)
                return [{"op": "embed", "ms": ms, "qs": [scn["q"] + 1], "n": scn["n"], "ret": be.p_list(obj), "via": "C(%d)" % scn["num"]}]
            if k == "err":
                rec = {"op": "gate_err", "name": scn["name"], "args": scn["args"]}
                try:
                    getattr(C, scn["name"])(*scn["args"])
                    rec["returned"] = True
                except Exception as e:
                    rec["exc"] = _exc(e)
                return [rec]
        except Exception as e:
            return [{"op": {"gate": "gate", "action": "gate_action", "ctable": "ctable", "caction": "embed"}.get(k, k), "exc": _exc(e), "scn": str(scn)[:100]}]
        raise ValueError(k)


PROP = C11
