"""C18  diagonalize and SBRG return circuits that really diagonalize."""
import numpy
from ..core import Prop
from .. import tlc, enum
from ..backend import _as_int
from .c02 import _exc, ins_to_state
from .c03 import read_maps
from .c15 import coef3, maxe


def gates_of(be, circ):
    out = []
    for layer in circ.layers_forward():
        for g in layer.gates:
            if g.generator is None:
                raise TypeError("non-rotation gate in a diagonalizing circuit")
            qs = [int(q) + 1 for q in g.qubits]
            if qs != sorted(qs):
                raise TypeError("gate qubits not ascending: %r" % (qs,))
            out.append({"qs": qs, "g": be.p_pauli(g.generator)})
    return out


def poly_terms(be, H, fine=False):
    ws = be.p_list(H)
    return [[w] + list(coef3(c, fine)) for w, c in zip(ws, be.tolist(H.cs))]


class C18(Prop):
    id = "C18"
    refusal_family = "diag"
    trace_module = "TraceC18"
    trace_cfg = "TraceC18.cfg"
    backends = ("py", "torch")
    chunk = 1500
    assumptions = [
        "postconditions only: TLC applies the recorded rotation gates itself (Circuit!Forward); how the circuit was found is not compared",
        "exhaustive: all non-identity strings x sign x target qubit x causal flag for N<=3 (N=4 in thorough); all pure tableaux N<=2 (thorough; sample in quick); SBRG on commuting Hamiltonians built from stabilizer halves of TLC-simulated tableaux (N=2..4) with distinct power-of-two coefficients, and arbitrary Hamiltonians for the diagonal-form clause",
    ]
    rule = "one record per diagonalize()/SBRG()/kernel call with the returned circuit's gate list"

    def models(self):
        # L2: transcribed pauli_diagonalize1/2 satisfy their postconditions for every string / anticommuting pair
        self.model("MC_Sampler", "MC_Sampler_t.cfg" if self.tier == "thorough" else "MC_Sampler_f.cfg", name="diagalg_postconditions", workers=4)
        self.maps = {}
        for n in (1, 2):
            pf = "%s/maps_n%d.txt" % (self.wd, n)
            self.model("MC_Clifford", "MC_Clifford_maps_n%d.cfg" % n, name="maps_n%d" % n, print_file=pf,
                       expect_distinct=(24 if n == 1 else 11520))
            self.maps[n] = [m for m, _ in read_maps(pf)]
        self.dense = []
        r24 = self.model("MC_RotSim", "MC_RotSim_n24.cfg", name="rotsim_n24", workers=1, simulate="num=%d" % (3 if self.tier == "thorough" else 1),
                         depth=14, seed=self.seed + 224, collect=True, timeout=1500)
        for e in r24.printed:
            if e[0] == "S" and e[1] in (10, 14):
                self.dense.append((24, e[3]))
        self.big = []
        self.groups = []      # (n, [signed elements of a stabilizer group incl. the identity]) -- computed by TLC
        nb = 60 if self.tier == "thorough" else 12
        for n in (2, 3, 4):
            r = self.model("MC_RotSim", "MC_RotSim_n%d.cfg" % n if n > 2 else "MC_RotSim_n3.cfg", name="rotsim_n%d" % n, workers=1,
                           simulate="num=%d" % nb, depth=8, seed=self.seed + 90 + n, collect=True)
            for e in r.printed:
                if e[0] == "S" and e[1] in (4, 8):
                    self.big.append((len(e[3]) // 2, e[3]))
                    if e[5]:
                        self.groups.append((len(e[3]) // 2, [img for _z, img in e[5]]))

    def scenarios(self):
        thorough = self.tier == "thorough"
        rng = self.rng
        for n in (1, 2, 3) + ((4,) if thorough else ()):
            for p in enum.herm(n, identity=False):
                for i0 in range(1, n + 1):
                    for causal in (False, True):
                        yield {"k": "diag", "p": p, "i0": i0, "causal": causal}
            for p in enum.strings(n):
                w = p + [0]
                yield {"k": "kern", "p": w}
        if not thorough:
            ps4 = [[rng.randrange(4) for _ in range(4)] + [rng.choice((0, 2))] for _ in range(150)]
            for p in ps4:
                if any(p[:-1]):
                    yield {"k": "diag", "p": p, "i0": rng.randrange(1, 5), "causal": rng.random() < 0.5}
        # registers across the 64-bit word boundary
        for t in range(12 if thorough else 6):
            n = (66, 70)[t % 2]
            p = [rng.randrange(4) if (t % 3 == 0 or rng.random() < 0.08) else 0 for _ in range(n)] + [rng.choice((0, 2))]
            p[n - 1 - t % 4] = p[n - 1 - t % 4] or 1 + t % 3
            p[62 + t % 3] = p[62 + t % 3] or 2
            yield {"k": "diag", "p": p, "i0": (1, 64, 65, n, 63, 66)[t % 6], "causal": t % 2 == 1}
        # anticommuting pairs for pauli_diagonalize2: partner rows of valid maps
        for n in (1, 2):
            pick = self.maps[n] if (n == 1 or thorough) else rng.sample(self.maps[n], 1200)
            for m in pick:
                for q in range(n):
                    yield {"k": "diag2", "g1": m[2 * q][:-1] + [0], "g2": m[2 * q + 1][:-1] + [0], "i0": rng.randrange(1, n + 1), "pkg": "py"}
        for n, m in self.big:
            for q in range(n):
                yield {"k": "diag2", "g1": m[2 * q][:-1] + [0], "g2": m[2 * q + 1][:-1] + [0], "i0": rng.randrange(1, n + 1)}
        # states
        for n in (1, 2):
            pick = self.maps[n] if (n == 1 or thorough) else rng.sample(self.maps[n], 800)
            for i, m in enumerate(pick):
                s = {"k": "diagstate", "rows": ins_to_state(m)}
                if n == 2 and i % 10:
                    s["pkg"] = "py"
                yield s
        for n, m in self.big:
            yield {"k": "diagstate", "rows": ins_to_state(m)}
        # dense 24-qubit states (TLC walk): the decoding map is derived by a 48 x 48 GF(2) inversion
        for n, m in self.dense:
            yield {"k": "diagstate", "rows": ins_to_state(m), "wide": True}
        # SBRG
        for j, (n, m) in enumerate(self.big):
            rows = ins_to_state(m)[:n]
            L = rng.randrange(1, n + 1)
            sub = rng.sample(rows, L)
            terms = []
            for a, w in enumerate(sub):
                terms.append([w[:-1] + [rng.choice((0, 2))], rng.choice((1, -1, 3)), 0, a + (1 if j % 2 else 0)])
            yield {"k": "sbrg", "n": n, "terms": terms, "pkg": "py", "commuting": True}
            # arbitrary Hamiltonian: only the diagonal form is required
            # (coefficients are +-2^-a so that the perturbative step, which divides by the leading coefficient, stays dyadic)
            terms = [[[rng.randrange(4) for _ in range(n)] + [0], rng.choice((1, -1)), 0, a] for a in range(rng.randrange(2, 6))]
            yield {"k": "sbrg", "n": n, "terms": terms, "pkg": "py", "commuting": False}
        # commuting Hamiltonians made of arbitrary elements of one stabilizer group (products of generators, the
        # identity = a constant energy offset), every term in turn carrying the largest coefficient
        for j, (n, els) in enumerate(self.groups):
            ident = [w for w in els if not any(w[:-1])]
            rest = [w for w in els if any(w[:-1])]
            sub = rng.sample(rest, min(len(rest), rng.randrange(2, 6))) + (ident if j % 3 != 2 else [])
            for lead in range(len(sub)):
                if lead > 1 and (j + lead) % 3:
                    continue
                order = sub[lead:] + sub[:lead]
                terms = [[w[:-1] + [rng.choice((0, 2))], rng.choice((1, -1, 3)), 0, 0 if a == 0 else 2 + a] for a, w in enumerate(order)]
                rng.shuffle(terms)
                yield {"k": "sbrg", "n": n, "terms": terms, "pkg": "py", "commuting": True}
                if lead == 0:
                    # non-default keywords and very small couplings (all coefficients below the pruning tolerance)
                    yield {"k": "sbrg", "n": n, "terms": terms, "pkg": "py", "commuting": True,
                           "kw": ({"tol": 0.1}, {"tol": 0.6, "max_rate": 1.0}, {"max_rate": 0.5})[j % 3]}
                    # (polynomial addition itself drops terms below 1e-10: stay above that, below SBRG's tol)
                    sh = (27, 14)[j % 2]
                    tiny = [[t[0], t[1], t[2], min(t[3], 4) + sh] for t in terms]
                    yield {"k": "sbrg", "n": n, "terms": tiny, "pkg": "py", "commuting": True, "kw": ({}, {"tol": 1e-3})[j % 2], "fine": 40}

    def execute(self, scn, be):
        k = scn["k"]
        C = be.circuit
        rec = {"op": k}
        try:
            if k == "diag":
                rec.update(p=scn["p"], i0=scn["i0"], causal=scn["causal"])
                P = be.pauli(scn["p"])
                circ = C.diagonalize(P, scn["i0"] - 1, causal=scn["causal"])
                rec["gates"] = gates_of(be, circ)
                Q = be.pauli(scn["p"])
                circ.forward(Q)
                rec["fwd"] = be.p_pauli(Q)
                rec["p1"] = be.p_pauli(P)
                return [rec]
            if k == "kern":
                P = be.pauli(scn["p"])
                n = len(scn["p"]) - 1
                out = []
                r1 = {"op": "front", "p": scn["p"]}
                v = _as_int(be.utils.front(P.g))
                r1["val"] = -1 if v is None else v + 1
                out.append(r1)
                r2 = {"op": "condense", "p": scn["p"]}
                gc, qs = be.utils.condense(P.g)
                r2["qubits"] = [q + 1 for q in be.p_ints(qs)]
                from ..backend import bits_wire
                r2["letters"] = bits_wire(be.tolist(gc), 0)[:-1]
                out.append(r2)
                for i0 in range(1, n + 1):
                    r3 = {"op": "onsite", "p": scn["p"], "i0": i0}
                    r3["val"] = bool(be.utils.pauli_is_onsite(P.g, i0 - 1))
                    out.append(r3)
                return out
            if k == "diag2":
                rec.update(g1=scn["g1"], g2=scn["g2"], i0=scn["i0"])
                A, B = be.pauli(scn["g1"]), be.pauli(scn["g2"])
                gens, o1, o2 = be.utils.pauli_diagonalize2(A.g, B.g, scn["i0"] - 1)
                from ..backend import bits_wire
                rec["gens"] = [bits_wire(be.tolist(g), 0) for g in gens]
                rec["out1"] = bits_wire(be.tolist(o1), 0)
                rec["out2"] = bits_wire(be.tolist(o2), 0)
                return [rec]
            if k == "diagstate":
                rows = scn["rows"]
                n = len(rows) // 2
                rec["pre"] = {"rows": rows, "r": 0}
                S = be.state(rows, 0)
                circ = C.diagonalize(S)
                T = be.state(rows, 0)
                circ.forward(T)
                rec["fwd"] = be.p_state(T)
                Z = be.stabilizer.zero_state(n)
                circ.backward(Z)
                rec["bwd"] = be.p_state(Z)
                rec["pre1"] = be.p_state(S)
                if scn.get("wide"):
                    # (groups of 2^24 elements are not enumerated: other field names, row-level clause WideStateDiagOK)
                    rec = {"op": "widediagstate", "wpre": rec["pre"], "wfwd": rec["fwd"], "wbwd": rec["bwd"], "wpre1": rec["pre1"]}
                return [rec]
            if k == "sbrg":
                n = scn["n"]
                terms = scn["terms"]
                H = be.poly([t[0] for t in terms], [complex(t[1], t[2]) / 2 ** t[3] for t in terms])
                fine = scn.get("fine", False)
                rec["h"] = poly_terms(be, H, fine)
                kw = scn.get("kw") or {}
                if kw:
                    rec["kw"] = kw      # for commuting input no keyword may matter: nothing is truncated or pruned
                heff, circ = C.SBRG(H, **kw)
                rec["heff"] = poly_terms(be, heff, fine)
                rec["gates"] = gates_of(be, circ)
                H2 = be.poly([t[0] for t in terms], [complex(t[1], t[2]) / 2 ** t[3] for t in terms])
                circ.forward(H2)
                rec["fwd"] = poly_terms(be, H2, fine)
                rec["h1"] = poly_terms(be, H, fine)
                es = [t[3] for t in rec["h"] + rec["heff"] + rec["fwd"]]
                rec["E"] = max([e for e in es if e < 99] + [0])
                rec["commuting"] = scn["commuting"]
                return [rec]
        except Exception as e:
            rec["exc"] = _exc(e)
            import traceback
            rec["where"] = traceback.format_exc().strip().splitlines()[-3][:160]
            rec.setdefault("E", 4)
            return [rec]
        raise ValueError(k)


PROP = C18
