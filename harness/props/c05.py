"""C05  Every reachable stabilizer state is a valid density matrix (tableau invariant)."""
from ..core import Prop
from .. import tlc, enum
from ..backend import _as_int, dyadic
from .c02 import ins_to_state, mask_of, _exc
from .c03 import read_maps
from .. import circ

GATES1 = ("H", "S", "X", "Y", "Z")


def snapshot(be, S):
    return be.p_state(S)


def apply_step(be, S, e, n, seed):
    """apply one public state-changing call to the live object S; returns (entry, S')"""
    k = e["kind"]
    out = dict(e)
    if k == "rotself":
        # the generator is a row of the state's own tableau (a view of the arrays that are being rotated)
        G = S[e["j"]]
        out["kind"] = "rot"
        out["g"] = be.p_pauli(G)
        out["self"] = e["j"]
        out.pop("j")
        if e.get("qs"):
            out["kind"] = "rotm"
            out["qs"] = e["qs"]
            # (masked: the generator restricted to the masked qubits -- built from the projection, a fresh object)
            w = out["g"]
            out["g"] = [w[q - 1] for q in e["qs"]] + [w[-1]]
            S.rotate_by(be.pauli(out["g"]), mask_of(be, e["qs"], n))
        else:
            S.rotate_by(G)
    elif k == "rot":
        S.rotate_by(be.pauli(e["g"]))
    elif k == "rotm":
        S.rotate_by(be.pauli(e["g"]), mask_of(be, e["qs"], n))
    elif k == "tf":
        M = be.cmap(e["m"])
        if len(e["qs"]) == n:
            S.transform_by(M)
        else:
            S.transform_by(M, mask_of(be, e["qs"], n))
    elif k == "gate":
        name = e["name"]
        qs0 = [q - 1 for q in e["qs"]]
        if name == "CNOTrev":
            g = be.circuit.CNOT(qs0[1], qs0[0])
        else:
            g = getattr(be.circuit, name)(*qs0)
        g.forward(S)
    elif k == "circ":
        items = [e["alpha"][i] for i in e["ids"]]
        c, _orig, _gates = circ.build(be, items, n, e["cls"], e["mode"], "orig")
        c.forward(S)
        out.pop("alpha")
        out["prog"] = [circ.wire_item(it) for it in items]
    elif k == "copy":
        orig = be.p_state(S)
        C = S.copy()
        out["orig"] = orig
        import numpy
        out["disjoint"] = not (numpy.shares_memory(C.gs, S.gs) or numpy.shares_memory(C.ps, S.ps))
        S = C
    elif k == "set_r":
        out["rows0"] = None
        rows0 = be.p_list(S)
        S.set_r(e["r"])
        out.pop("rows0")
        out["rows0w"] = rows0
    elif k == "measure":
        O = be.plist(e["obs"])
        want = e.get("want")
        sd = seed
        if want is not None:
            snap = be.p_state(S)
            for t in range(80):
                T = be.state(snap["rows"], snap["r"])
                be.seed(seed + t)
                o, _ = T.measure(be.plist(e["obs"]))
                if be.p_ints(o) == want:
                    sd = seed + t
                    break
        be.seed(sd)
        o, l2p = S.measure(O)
        out["out"] = be.p_ints(o)
        li = _as_int(l2p)
        out["l2p"] = 99 if li is None else li
    elif k == "postselect":
        pr = S.postselect(be.pauli(e["p"]), e["b"])
        d = dyadic(pr)
        out["prob"] = d if d is not None else [7, 20]
    else:
        raise ValueError(k)
    out["post"] = be.p_state(S)
    return out, S


class C05(Prop):
    id = "C05"
    trace_module = "TraceStab"
    trace_cfg = "TraceStab.cfg"
    suite_family = ('stab', ('steps',))
    backends = ("py",)
    chunk = 100
    assumptions = [
        "TableauOK/DensityOK are evaluated by TLC on every recorded post-tableau; DensityGround (Tr rho = 1, rho^2 = 2^-r rho) ties them to matrices for N<=2",
        "one-step closure: pre-states enumerate the complete valid tableau space for N<=2 (thorough) -- phases of standby/destabilizer rows are Hermitian in the enumeration and must stay Hermitian (StepsHermOK): to_map() / diagonalize() turn them into map images",
        "quick: VERIF_SEED-chosen subset of the N=2 space (no closure claim); histories for N=2..5 from TLC -simulate (MC_TabWalk)",
    ]
    rule = ("one record per pre-tableau with one entry per public state-changing call (rotate, masked rotate, transform, masked transform, "
            "named gates, measure, postselect, copy, set_r) applied to a fresh copy, plus one record per TLC-simulated history replayed on a live object")

    def models(self):
        for n in (1, 2):
            self.model("MC_StabSem", "MC_StabSem_c05_n%d.cfg" % n, name="stabsem_n%d" % n, expect_distinct=(7 if n == 1 else 91))
        self.model("MC_Tableau", "MC_Tableau_n1.cfg", name="tableau_impl_n1", expect_distinct=48)
        if self.tier == "thorough":
            self.model("MC_Tableau", "MC_Tableau_n2.cfg", name="tableau_impl_n2", expect_distinct=34560, timeout=3000)
        self.maps = {}
        for n in (1, 2):
            pf = "%s/maps_n%d.txt" % (self.wd, n)
            self.model("MC_Clifford", "MC_Clifford_maps_n%d.cfg" % n, name="maps_n%d" % n, print_file=pf,
                       expect_distinct=(24 if n == 1 else 11520))
            self.maps[n] = [m for m, _ in read_maps(pf)]
        # small gate programs (N=3 alphabet of MC_Circuit) applied to states through circuits in every compile mode
        pfc = "%s/programs.txt" % self.wd
        self.model("MC_Circuit", "MC_Circuit_q.cfg", name="programs", print_file=pfc, timeout=3000)
        self.alpha, self.progs = circ.read_programs(pfc)
        r3 = self.model("MC_RotSim", "MC_RotSim_n3.cfg", name="rotsim_n3", workers=1, simulate="num=%d" % (30 if self.tier == "thorough" else 8),
                        depth=9, seed=self.seed + 45, collect=True)
        self.tabs3 = [e[3] for e in r3.printed if e[0] == "S" and e[1] % 3 == 0]
        self.walks = []
        nb = 120 if self.tier == "thorough" else 10
        for n in (2, 3, 4, 5):
            r = self.model("MC_TabWalk", "MC_TabWalk_n%d.cfg" % n, name="tabwalk_n%d" % n, workers=1, simulate="num=%d" % nb,
                           depth=24, seed=self.seed + 40 + n, collect=True)
            cur = None
            for e in r.printed:
                if e[0] != "W":
                    continue
                if e[1] == 1:
                    cur = {"k": "walk", "n": n, "init": e[4], "steps": []}
                    self.walks.append(cur)
                cur["steps"].append(e[2])

    def scenarios(self):
        thorough = self.tier == "thorough"
        rng = self.rng
        sid = 0
        for n in (1, 2):
            maps = self.maps[n]
            tabs = [(m, r) for m in maps for r in range(n + 1)]
            pick = tabs if (n == 1 or thorough) else rng.sample(tabs, 1200)
            gens = enum.herm(n, identity=False)
            herm = enum.herm(n)
            for i, (m, r) in enumerate(pick):
                es = []
                for g in gens:
                    es.append({"kind": "rot", "g": g})
                for j in range(2 * n):
                    es.append({"kind": "rotself", "j": j})
                if n == 2:
                    for qs in ([1], [2]):
                        for g in enum.herm(1, identity=False):
                            es.append({"kind": "rotm", "g": g, "qs": qs})
                        for mm in rng.sample(self.maps[1], 6):
                            es.append({"kind": "tf", "m": mm, "qs": qs})
                    for mm in rng.sample(maps, 10):
                        es.append({"kind": "tf", "m": mm, "qs": [1, 2]})
                    es.append({"kind": "gate", "name": "CNOT", "qs": [1, 2]})
                    es.append({"kind": "gate", "name": "CNOTrev", "qs": [1, 2]})
                else:
                    for mm in maps:
                        es.append({"kind": "tf", "m": mm, "qs": [1]})
                for q in range(1, n + 1):
                    for g in GATES1:
                        es.append({"kind": "gate", "name": g, "qs": [q]})
                for h in herm:
                    es.append({"kind": "measure", "obs": [h]})
                # one call with SEVERAL observables (the rank bookkeeping is carried from one observable to the next inside the
                # kernel): repeated and negated observables, and random pairs / triples -- commuting or not, dependent or not
                # (among 32 signed strings on 2 qubits one triple in 16 ends with +-(product of the first two))
                for h in (herm if n == 1 else rng.sample(herm, 6)):
                    es.append({"kind": "measure", "obs": [h, h]})
                    es.append({"kind": "measure", "obs": [h, h[:-1] + [(h[-1] + 2) % 4]]})
                for _ in range(4 if n == 1 else 10):
                    es.append({"kind": "measure", "obs": [rng.choice(herm) for _ in range(2 + len(es) % 2)]})
                if r == 0:
                    for h in herm:
                        for b in (0, 1):
                            es.append({"kind": "postselect", "p": h, "b": b})
                es.append({"kind": "copy"})
                for r2 in range(n + 1):
                    es.append({"kind": "set_r", "r": r2})
                sid += 1
                yield {"k": "steps", "rows": ins_to_state(m), "r": r, "es": es, "seed": self.seed * 104729 + sid * 4}
        # utils.decompose on valid tableaux x all strings (model drift only)
        for n in (1, 2):
            for i, m in enumerate(self.maps[n] if n == 1 else rng.sample(self.maps[n], 200 if thorough else 40)):
                yield {"k": "decompose", "rows": ins_to_state(m), "ps": enum.strings(n)}
        for t in self.tabs3[:6]:
            yield {"k": "decompose", "rows": ins_to_state(t), "ps": enum.strings(3)}
        unit = [ids for ids, _ in self.progs if ids and all(i <= 14 for i in ids)]
        for j, t in enumerate(self.tabs3):
            es = []
            for ids in rng.sample(unit, 60 if thorough else 25):
                for mode in ("plain", "layers", "circuit"):
                    es.append({"kind": "circ", "ids": ids, "mode": mode, "cls": ("CliffordCircuit", "Circuit")[(len(es) + j) % 2]})
            sid += 1
            yield {"k": "steps", "rows": ins_to_state(t), "r": j % 4, "es": es, "seed": self.seed * 104729 + sid * 4}
        # wide registers: the N=3 programs relabelled (ascending) onto qubits around index 64, run through circuits
        for t in range(24 if thorough else 8):
            ids = rng.choice([u for u in unit if len(u) == 3])
            n, inj = rng.choice(((66, [64, 65, 66]), (66, [2, 65, 66]), (65, [63, 64, 65]), (70, [1, 64, 66]), (70, [64, 65, 70]), (64, [62, 63, 64])))
            items = [dict(self.alpha[i], qs=[inj[q - 1] for q in self.alpha[i]["qs"]]) for i in ids]
            yield {"k": "wide", "n": n, "items": items, "mode": ("circuit", "layers", "plain")[t % 3], "cls": ("CliffordCircuit", "Circuit")[(t // 3) % 2],
                   "init": ("zero", "ghz", "mixed", "ghz")[t % 4], "r": (0, 0, n, 5)[t % 4]}
        for w in self.walks:
            sid += 1
            w["seed"] = self.seed * 104729 + sid * 1000
            yield w

    def execute(self, scn, be):
        if scn["k"] == "steps":
            n = len(scn["rows"]) // 2
            rec = {"op": "steps", "pre": {"rows": scn["rows"], "r": scn["r"]}, "entries": []}
            try:
                for j, e in enumerate(scn["es"]):
                    if e["kind"] == "circ":
                        e = dict(e, alpha=self.alpha)
                    S = be.state(scn["rows"], scn["r"])
                    out, _ = apply_step(be, S, e, n, scn["seed"] + j)
                    if out["kind"] == "set_r":
                        out["rows0"] = out.pop("rows0w")
                    rec["entries"].append(out)
            except Exception as e:
                rec["exc"] = _exc(e)
                rec["at"] = len(rec["entries"])
            return [rec]
        if scn["k"] == "decompose":
            out = []
            S = be.state(scn["rows"], 0)
            for w in scn["ps"]:
                rec = {"op": "decompose", "pre": {"rows": scn["rows"], "r": 0}, "p": w + [0]}
                try:
                    from ..backend import bits_wire
                    ph, tmp, b, c = be.utils.decompose(be.pauli(w + [0]).g, S.gs, S.ps)
                    rec.update(phase=_as_int(ph), tmp=bits_wire(be.tolist(tmp), 0), b=be.p_ints(b), c=be.p_ints(c))
                except Exception as e:
                    rec["raised"] = _exc(e)      # (not "exc": no property promises this function; drift only)
                out.append(rec)
                if "raised" in rec:
                    break
            return out
        if scn["k"] == "wide":
            n = scn["n"]
            rec = {"op": "widecirc", "prog": [circ.wire_item(it) for it in scn["items"]]}
            try:
                St = be.stabilizer
                S = {"zero": St.zero_state, "mixed": St.maximally_mixed_state, "ghz": St.ghz_state}[scn["init"]](n)
                S.set_r(scn["r"])
                rec["wpre"] = be.p_state(S)      # (not "pre"/"post": PreValid / PostValid enumerate the group)
                c, _o, _g = circ.build(be, scn["items"], n, scn["cls"], scn["mode"], "orig")
                c.forward(S)
                rec["wpost"] = be.p_state(S)
            except Exception as e:
                rec["exc"] = _exc(e)
            return [rec]
        # walk on one live object
        n = scn["n"]
        St = be.stabilizer
        S = {"zero": St.zero_state, "mixed": St.maximally_mixed_state, "ghz": St.ghz_state}[scn["init"]](n)
        rec = {"op": "walk", "init": scn["init"], "pre": be.p_state(S), "entries": []}
        try:
            for j, st in enumerate(scn["steps"]):
                kind = st[0]
                if kind == "rot":
                    e = {"kind": "rot", "g": st[1]}
                elif kind == "gate":
                    e = {"kind": "gate", "name": st[1], "qs": st[2]}
                elif kind == "measure":
                    e = {"kind": "measure", "obs": [st[1]], "want": [st[2]]}
                elif kind == "postselect":
                    e = {"kind": "postselect", "p": st[1], "b": st[2]}
                out, S = apply_step(be, S, e, n, scn["seed"] + 100 * j)
                rec["entries"].append(out)
                if j % 7 == 6:
                    out, S = apply_step(be, S, {"kind": "copy"}, n, 0)
                    rec["entries"].append(out)
        except Exception as e:
            rec["exc"] = _exc(e)
            rec["at"] = len(rec["entries"])
        return [rec]


PROP = C05
