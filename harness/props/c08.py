"""C08  Entropy equals the von Neumann entropy of the reduced density matrix."""
import itertools
from ..core import Prop
from .. import enum
from ..backend import _as_int
from .c02 import embed_tableau, ins_to_state, _exc
from .c03 import read_maps


class C08(Prop):
    id = "C08"
    trace_module = "TraceStab"
    trace_cfg = "TraceStab.cfg"
    suite_family = ('stab', ('entropy',))
    backends = ("py", "torch")
    chunk = 300
    assumptions = [
        "Entropy(S,A) = |A| - log2 |{s in S : supp s in A}| grounded by TLC against explicit partial traces (rho_A^2 = 2^-k rho_A, Tr rho_A = 1) for all 91 N=2 states",
        "generator independence: the N<=2 tableau space contains every generating set/ordering of each of the 91 groups; N=3..5 tableaux come from TLC -simulate walks with every rank",
    ]
    rule = "one record per (tableau, input form) with all 2^N regions; forms: index list, tuple, numpy bool mask"

    def models(self):
        # L2: transcribed GF(2) elimination (z2rank, z2inv) against its definition on all matrices up to 3x3 (4x4 thorough)
        self.model("MC_Z2", "MC_Z2_t.cfg" if self.tier == "thorough" else "MC_Z2_q.cfg", name="z2_linear_algebra", workers=4, timeout=3000)
        # L2: the transcribed stabilizer_entropy equals the entropy formula in every reachable tableau (EntropyRefines)
        self.model("MC_Tableau", "MC_Tableau_n1.cfg", name="tableau_impl_n1", expect_distinct=48)
        if self.tier == "thorough":
            self.model("MC_Tableau", "MC_Tableau_n2.cfg", name="tableau_impl_n2", expect_distinct=34560, timeout=3000)
        for k_, m_ in ((1, 1), (1, 2), (2, 1), (2, 2)):
            self.model("MC_Pad", "MC_Pad_k%dm%d.cfg" % (k_, m_), name="pad_lemma_k%dm%d" % (k_, m_), workers=4)
        for n in (1, 2):
            self.model("MC_StabSem", "MC_StabSem_c08_n%d.cfg" % n, name="stabsem_n%d" % n, expect_distinct=(7 if n == 1 else 91))
        self.maps = {}
        for n in (1, 2):
            pf = "%s/maps_n%d.txt" % (self.wd, n)
            self.model("MC_Clifford", "MC_Clifford_maps_n%d.cfg" % n, name="maps_n%d" % n, print_file=pf,
                       expect_distinct=(24 if n == 1 else 11520))
            self.maps[n] = [m for m, _ in read_maps(pf)]
        self.big = []
        nb = 150 if self.tier == "thorough" else 25
        for n in (3, 4, 5):
            r = self.model("MC_RotSim", "MC_RotSim_n%d.cfg" % n, name="rotsim_n%d" % n, workers=1, simulate="num=%d" % nb,
                           depth=8, seed=self.seed + 60 + n, collect=True)
            for e in r.printed:
                if e[0] == "S" and e[1] in (2, 5, 8):
                    self.big.append((n, e[3]))

    def scenarios(self):
        thorough = self.tier == "thorough"
        rng = self.rng
        for n in (1, 2):
            tabs = [(m, r) for m in self.maps[n] for r in range(n + 1)]
            pick = tabs if (n == 1 or thorough) else rng.sample(tabs, 2500)
            regions = [[]] + enum.subsets(n)
            for i, (m, r) in enumerate(pick):
                for form in ("list", "tuple", "mask", "tmask") + ((("unsorted", "ndarray", "repeat")[i % 3],) if n == 2 else ()):
                    s = {"k": "entropy", "rows": ins_to_state(m), "r": r, "regions": regions, "form": form}
                    if n == 2 and i % 10:
                        s["pkg"] = "py"
                    yield s
        for i, (n, m) in enumerate(self.big):
            regions = [[]] + enum.subsets(n)
            for r in range(n + 1):
                s = {"k": "entropy", "rows": ins_to_state(m), "r": r, "regions": regions, "form": ("list", "tuple", "mask")[(i + r) % 3]}
                if i % 3:
                    s["pkg"] = "py"
                yield s
                if (i + r) % 2 == 0:
                    yield dict(s, form="tmask", pkg="torch")
                # the same regions named in other ways: indices in descending / shuffled order, as a numpy integer array,
                # as a range, and with qubits named more than once (padded to length N: still the same set of qubits)
                yield dict(s, form=("unsorted", "ndarray", "repeat", "range")[(i + r) % 4], pkg="py")

        # registers across the 64-bit word boundary: an entangled 3..5-qubit tableau on the last qubits of a 66 / 70-qubit
        # register that is maximally mixed elsewhere (the group stays small enough for TLC to enumerate)
        for i, (k, m) in enumerate(self.big[:10 if not thorough else 40]):
            nn = (66, 70)[i % 2]
            rs = i % (k + 1)
            rows, r = embed_tableau(ins_to_state(m), rs, nn)
            regions = [[], list(range(1, nn + 1)), list(range(nn - k + 1, nn + 1)), list(range(1, nn - k + 1))]
            for _ in range(12):
                a = rng.sample(range(nn - k + 1, nn + 1), rng.randrange(1, k + 1))
                b = rng.sample(range(1, nn - k + 1), rng.randrange(0, 4)) + ([64, 65] if rng.random() < 0.5 else [])
                regions.append(sorted(set(a + b)))
            yield {"k": "entropy", "rows": rows, "r": r, "regions": regions, "form": ("list", "mask", "ndarray")[i % 3]}
            # the same block next to a computational-basis state: pure for rs = 0 (the pure-state branch of the kernel on
            # a 132-column tableau); judged through the padding lemma
            signs = [rng.randrange(2) for _ in range(nn - k)]
            rows2, r2 = embed_tableau(ins_to_state(m), rs if i % 3 == 2 else 0, nn, signs)
            yield {"k": "wideentropy", "rows": rows2, "r": r2, "block": {"rows": ins_to_state(m), "r": r2}, "n": nn, "kk": k,
                   "regions": regions, "form": ("list", "mask", "ndarray")[(i + 1) % 3]}

        # one live state object: entropies asked between in-place changes (rotation, measurement, gate, post-selection)
        for i, (n, m) in enumerate(self.big[:30 if thorough else 10]):
            yield {"k": "live", "rows": ins_to_state(m), "r": i % (n + 1), "seed": self.seed + i,
                   "ops": [[rng.randrange(4) for _ in range(n)] + [rng.choice((0, 2))] for _ in range(5)],
                   "regions": [[1], list(range(1, n)), [n, 1] if n > 1 else [1]], "pkg": "py"}
        # very wide pure states (129..140 qubits): GHZ states in other local bases (every qubit rotated by S and / or H), so
        # that a stabilizer has 128 or more Y / X letters on one side of the cut
        for j, nn in enumerate((129, 130, 140) if thorough else (129, 130)):
            regions = [list(range(1, 129)), [129], list(range(2, nn + 1)), list(range(1, nn + 1)), [], [1, nn], list(range(1, nn, 2))]
            for basis in ("Y", "X", "mixed")[: 3 if thorough else 2]:
                yield {"k": "ghzentropy", "n": nn, "basis": basis, "regions": regions, "form": ("list", "mask")[j % 2], "pkg": "py"}

    def execute(self, scn, be):
        import numpy
        if scn["k"] == "live":
            out = []
            n = len(scn["rows"]) // 2
            try:
                S = be.state(scn["rows"], scn["r"])
                for t, g in enumerate(scn["ops"]):
                    cur = be.p_state(S)
                    rec = {"op": "entropy", "form": "live", "pre": cur, "regions": scn["regions"]}
                    rec["vals"] = []
                    for reg in scn["regions"]:
                        v = _as_int(S.entropy([q - 1 for q in reg]))
                        rec["vals"].append(-99 if v is None else v)
                    rec["pre1"] = be.p_state(S)
                    out.append(rec)
                    if any(g[:-1]):
                        if t % 3 == 0:
                            S.rotate_by(be.pauli(g))
                        elif t % 3 == 1:
                            be.seed(scn["seed"] + t)
                            S.measure(be.plist([g]))
                        else:
                            be.circuit.H(t % n).forward(S)
            except Exception as e:
                out.append({"op": "entropy", "form": "live", "pre": {"rows": scn["rows"], "r": scn["r"]}, "regions": [], "vals": [], "exc": _exc(e)})
            return out
        if scn["k"] == "ghzentropy":
            nn = scn["n"]
            rec = {"op": "ghzentropy", "n": nn, "basis": scn["basis"], "regions": scn["regions"], "form": scn["form"]}
            try:
                S = be.stabilizer.ghz_state(nn)
                C = be.circuit
                for q in range(nn):
                    if scn["basis"] in ("Y",) or (scn["basis"] == "mixed" and q % 3 == 0):
                        C.S(q).forward(S)          # Z-type generators stay, the X string becomes a Y string
                    elif scn["basis"] == "X" or (scn["basis"] == "mixed" and q % 3 == 1):
                        C.H(q).forward(S)
                vals = []
                for reg in scn["regions"]:
                    z = [q - 1 for q in reg]
                    arg = z if scn["form"] == "list" else numpy.array([(j in set(z)) for j in range(nn)], dtype=numpy.bool_)
                    v = _as_int(S.entropy(arg))
                    vals.append(-99 if v is None else v)
                rec["vals"] = vals
            except Exception as e:
                rec["exc"] = _exc(e)
            return [rec]
        n = len(scn["rows"]) // 2
        rec = {"op": "entropy", "form": scn["form"], "pre": {"rows": scn["rows"], "r": scn["r"]}, "regions": scn["regions"]}
        if scn["k"] == "wideentropy":
            # (no "pre": the register's group is too large for PreValid; the tableau is built by placement from a valid block)
            rec = {"op": "wideentropy", "form": scn["form"], "block": scn["block"], "n": scn["n"], "k": scn["kk"], "regions": scn["regions"]}
        try:
            S = be.state(scn["rows"], scn["r"])
            vals = []
            regs = []
            for reg in scn["regions"]:
                z = [q - 1 for q in reg]
                regs.append(reg)
                if scn["form"] == "unsorted":
                    arg = list(reversed(z)) if len(z) < 3 else z[1:] + z[:1]
                elif scn["form"] == "ndarray":
                    arg = numpy.array(z, dtype=(numpy.int64, numpy.int32, numpy.intp)[len(z) % 3])
                elif scn["form"] == "range":
                    if not z or z != list(range(z[0], z[-1] + 1)):
                        regs.pop()
                        continue
                    arg = range(z[0], z[-1] + 1)
                elif scn["form"] == "repeat":
                    if not z:
                        regs.pop()
                        continue
                    arg = (z * n)[:max(n, len(z) + 1)]
                    arg = arg[1:] + arg[:1]
                    try:
                        v = _as_int(S.entropy(arg))
                    except Exception:
                        regs.pop()          # refusing a list that names a qubit twice is not a violation
                        continue
                    vals.append(-99 if v is None else v)
                    continue
                elif scn["form"] == "tmask":
                    if be.name != "torch":
                        regs.pop()
                        continue
                    arg = be.bvec([(j in z) for j in range(n)])        # a torch.bool mask
                elif scn["form"] == "list":
                    arg = z
                elif scn["form"] == "tuple":
                    arg = tuple(z)
                else:
                    arg = numpy.array([(j in z) for j in range(n)], dtype=numpy.bool_)
                    if not z:
                        arg = numpy.zeros(n, dtype=numpy.bool_)
                v = _as_int(S.entropy(arg))
                vals.append(-99 if v is None else v)
            rec["vals"] = vals
            rec["regions"] = regs
            if scn["k"] != "wideentropy":
                rec["pre1"] = be.p_state(S)
        except Exception as e:
            rec["exc"] = _exc(e)
        return [rec]


PROP = C08
