"""C16  Random Cliffords are valid and uniformly distributed."""
import math
from ..core import Prop
from .. import enum
from ..backend import _as_int
from .c02 import _exc


def tally_record(name, counts, expect, outputs=None):
    M = sum(counts.values())
    m = M / float(expect)
    chi2 = sum((c - m) ** 2 / m for c in counts.values()) + (expect - len(counts)) * m
    dof = expect - 1
    rec = {"op": "dist", "name": name, "samples": M, "support": len(counts), "expect": expect, "dof": dof,
           "chi2m": int(math.ceil(1000 * chi2)), "slack6m": 1000 * int(math.ceil(8 * math.sqrt(2 * dof))),
           "min": min(counts.values()), "max": max(counts.values())}
    if outputs is not None:
        rec["outputs"] = outputs
    return rec


_RAW = None


def _raw_draws():
    """replays the draw pattern of random_pair (two vectors of 2N bits, g1 redrawn while zero) on numba's generator,
    to learn which raw bits a seed produces; used for the drift-only alignment with Sampler.tla"""
    global _RAW
    if _RAW is None:
        import numpy
        from numba import njit

        @njit
        def raw(N):
            g1 = numpy.random.randint(0, 2, 2 * N)
            g2 = numpy.random.randint(0, 2, 2 * N)
            while (g1 == 0).all():
                g1 = numpy.random.randint(0, 2, 2 * N)
            return g1, g2
        _RAW = raw
    return _RAW


class C16(Prop):
    id = "C16"
    trace_module = "TraceC16"
    trace_cfg = "TraceC16.cfg"
    backends = ("py", "torch")
    chunk = 2000
    level = "model_checking"
    assumptions = [
        "validity (ValidMap / TableauOK) is judged by TLC on every sampled object, N<=6 (8 in thorough)",
        "distribution: tallies over fixed seed blocks (derived from VERIF_SEED, so never flaky): every element of the finite sample space must be reached and the chi-square statistic must lie within 8 sigma of its mean; exact for the support (24 signed one-qubit maps, all 720 symplectic classes for N=2), statistical for the frequencies",
        "the tally arithmetic (counting identical outputs, chi-square) is done by the harness; the acceptance region is stated in TraceC16.tla",
    ]
    rule = "one record per sampled map / state (validity) and one record per tally (distribution, fairness, resampling)"

    def models(self):
        # the sample spaces: the whole groups, enumerated by TLC (24 / 11520 maps = 720 x 16 signed tables)
        # exact uniformity of the transcribed sampler by counting raw draws (N<=2), diagonalisation postconditions
        self.model("MC_Sampler", "MC_Sampler_t.cfg" if self.tier == "thorough" else "MC_Sampler_q.cfg", name="sampler_counting", workers=4)
        self.model("MC_Clifford", "MC_Clifford_maps_n1.cfg", name="group_n1", expect_distinct=24)
        self.model("MC_Clifford", "MC_Clifford_maps_n2.cfg", name="group_n2", expect_distinct=11520)

    def scenarios(self):
        thorough = self.tier == "thorough"
        base = self.seed * 1000003
        ns = (1, 2, 3, 4, 5, 6) + ((7, 8) if thorough else ())
        reps = 40 if thorough else 12
        for n in ns:
            for t in range(reps):
                sd = base + 97 * n + t
                for name in ("random_clifford_map", "random_pauli_map"):
                    yield {"k": "map", "name": name, "n": n, "seed": sd}
                for name in ("random_clifford_state", "random_pauli_state"):
                    yield {"k": "state", "name": name, "n": n, "r": t % (n + 1), "seed": sd}
                yield {"k": "state", "name": "random_bit_state", "n": n, "r": 0, "seed": sd, "pkg": "py"}
                for cname in ("onsite_rcc", "global_rcc") + (("brickwall_rcc",) if n % 2 == 0 else ()):
                    yield {"k": "circ", "name": cname, "n": n, "seed": sd, "depth": 1 + t % 3}
        # registers across the 64-bit word boundary (validity only; highly mixed states keep the group enumerable)
        for n in (64, 65, 66):
            for t in range(3 if thorough else 1):
                sd = base + 97 * n + t
                for name in ("random_clifford_map", "random_pauli_map"):
                    yield {"k": "map", "name": name, "n": n, "seed": sd, "pkg": "py"}
                for name in ("random_clifford_state", "random_pauli_state"):
                    yield {"k": "state", "name": name, "n": n, "r": n - 2, "seed": sd, "pkg": "py"}
        f = 4 if thorough else 1
        yield {"k": "tally", "name": "random_clifford_n1", "n": 1, "M": 12000 * f, "seed": base + 1, "signed": True, "expect": 24}
        yield {"k": "tally", "name": "random_clifford_n2", "n": 2, "M": 72000 * f, "seed": base + 2, "signed": False, "expect": 720, "pkg": "py"}
        yield {"k": "tally", "name": "random_clifford_n2", "n": 2, "M": 36000 * f, "seed": base + 2, "signed": False, "expect": 720, "pkg": "torch"}
        yield {"k": "tally", "name": "random_clifford_signs_n2", "n": 2, "M": 16000 * f, "seed": base + 3, "signs": True, "expect": 16}
        yield {"k": "tally", "name": "random_pauli_n1", "n": 1, "M": 12000 * f, "seed": base + 4, "signed": True, "expect": 24, "pauli": True}
        yield {"k": "tally", "name": "random_pauli_n2", "n": 2, "M": 18000 * f, "seed": base + 5, "signed": False, "expect": 36, "pauli": True}
        for t in range(4000 * f):
            yield {"k": "align", "what": "clifford2" if t % 4 else "pair", "n": 2 if t % 8 else 1, "seed": base + 5000 + t, "pkg": "py"}
        yield {"k": "birthday", "n": 3, "M": 6000, "seed": base + 9}
        yield {"k": "bigbirthday", "n": 5, "M": 200000, "seed": base + 10, "pkg": "py"}
        yield {"k": "rowmarginal", "n": 500, "maps": 80 if thorough else 40, "seed": base + 11, "pkg": "py"}
        # larger registers: the image of X_1 / Z_1 under a uniform Clifford is a uniform non-identity string, so every
        # letter appears on every qubit in a quarter of the samples (up to 4^-N); per-qubit letter tallies
        for n in (7, 33, 40, 66):
            yield {"k": "marginal", "name": "random_clifford_map", "n": n, "M": 320, "seed": base + 300 + n, "pkg": "py"}
        yield {"k": "marginal", "name": "random_clifford_map", "n": 12, "M": 320, "seed": base + 312}
        # N = 3, 4: every row of the table is a uniform non-identity string -- exact letter probabilities on every qubit of
        # every row (I: (4^(N-1) - 1) / (4^N - 1), X, Y, Z: 4^(N-1) / (4^N - 1)), many samples
        yield {"k": "marginal", "name": "random_clifford_map", "n": 3, "M": 20000, "seed": base + 303, "rows": 6, "exact": True}
        yield {"k": "marginal", "name": "random_clifford_map", "n": 4, "M": 8000, "seed": base + 304, "rows": 8, "exact": True}
        yield {"k": "coin", "seed": base + 6, "M": 4000 * f, "pkg": "py"}
        yield {"k": "bitsigns", "seed": base + 7, "M": 2000 * f, "pkg": "py"}
        yield {"k": "resample", "seed": base + 8}

    def execute(self, scn, be):
        k = scn["k"]
        St, C = be.stabilizer, be.circuit
        try:
            if k == "map":
                be.seed(scn["seed"])
                m = getattr(St, scn["name"])(scn["n"])
                return [{"op": "randmap", "name": scn["name"], "n": scn["n"], "m": be.p_list(m)}]
            if k == "state":
                be.seed(scn["seed"])
                if scn["name"] == "random_bit_state":
                    S = St.random_bit_state(scn["n"])
                else:
                    S = getattr(St, scn["name"])(scn["n"], scn["r"])
                return [{"op": "randstate", "name": scn["name"], "n": scn["n"], "post": be.p_state(S)}]
            if k == "circ":
                n = scn["n"]
                be.seed(scn["seed"])
                c = getattr(C, scn["name"])(n, scn["depth"]) if scn["name"] == "brickwall_rcc" else getattr(C, scn["name"])(n)
                out = []
                m = St.identity_map(n)
                c.forward(m)
                out.append({"op": "randmap", "name": scn["name"] + ".forward", "n": n, "m": be.p_list(m)})
                S = St.zero_state(n)
                c.backward(S)
                out.append({"op": "randstate", "name": scn["name"] + ".backward", "n": n, "post": be.p_state(S)})
                for S2 in c.povm(2):
                    out.append({"op": "randstate", "name": scn["name"] + ".povm", "n": n, "post": be.p_state(S2)})
                return out
            if k == "tally":
                n = scn["n"]
                be.seed(scn["seed"])
                f = St.random_pauli_map if scn.get("pauli") else St.random_clifford_map
                counts, reps = {}, {}
                for _ in range(scn["M"]):
                    m = f(n)
                    w = be.p_list(m)
                    if scn.get("signs"):
                        key = tuple(x[-1] for x in w)
                    elif scn.get("signed"):
                        key = tuple(tuple(x) for x in w)
                    else:
                        key = tuple(tuple(x[:-1]) for x in w)
                    counts[key] = counts.get(key, 0) + 1
                    if key not in reps:
                        reps[key] = [x[:-1] + [0] for x in w] if not scn.get("signed") else w
                outs = None if scn.get("signs") else [reps[k2] for k2 in sorted(reps)][:800]
                return [tally_record(scn["name"], counts, scn["expect"], outs)]
            if k == "align":
                n = scn["n"]
                raw = _raw_draws()
                if scn["what"] == "pair":
                    be.seed(scn["seed"])
                    r1 = raw(n)
                    be.seed(scn["seed"])
                    g1, g2 = be.utils.random_pair(n)
                    return [{"op": "align", "what": "pair", "n": n, "raw": [be.p_ints(r1[0]), be.p_ints(r1[1])], "out": [be.p_ints(g1), be.p_ints(g2)]}]
                be.seed(scn["seed"])
                r2 = raw(2)
                r1 = raw(1)
                be.seed(scn["seed"])
                tab = be.utils.random_clifford(2)
                return [{"op": "align", "what": "clifford2", "n": 2, "raw2": [be.p_ints(r2[0]), be.p_ints(r2[1])],
                         "raw1": [be.p_ints(r1[0]), be.p_ints(r1[1])], "out": [be.p_ints(row) for row in tab]}]
            if k == "birthday":
                be.seed(scn["seed"])
                seen, outs = set(), []
                for t in range(scn["M"]):
                    w = be.p_list(St.random_clifford_map(scn["n"]))
                    key = tuple(tuple(x[:-1]) for x in w)
                    if key not in seen and len(outs) < 40:
                        outs.append([x[:-1] + [0] for x in w])
                    seen.add(key)
                return [{"op": "birthday", "n": scn["n"], "M": scn["M"], "space": 1451520, "distinct": len(seen),
                         "collisions": scn["M"] - len(seen), "outputs": outs}]
            if k == "marginal":
                be.seed(scn["seed"])
                n, M = scn["n"], scn["M"]
                nrows = scn.get("rows", 2)
                cnt = [[[0, 0, 0, 0] for _ in range(n)] for _row in range(nrows)]
                signs = [0, 0]
                for _ in range(M):
                    m = be.p_list(St.random_clifford_map(n))
                    for row in range(nrows):
                        w = m[row]
                        for q in range(n):
                            if w[q] in (0, 1, 2, 3):
                                cnt[row][q][w[q]] += 1
                    for w in m:
                        signs[1 if w[-1] == 2 else 0] += 1
                return [{"op": "marginal", "name": scn["name"], "n": n, "M": M, "cnt": cnt, "exact": bool(scn.get("exact"))},
                        {"op": "fair", "name": "random_clifford_map signs n=%d" % n, "c0": signs[0], "c1": signs[1]}]
            if k == "rowmarginal":
                n = scn["n"]
                cnt = []
                for t in range(scn["maps"]):
                    if t % 8 == 0:
                        be.seed((scn["seed"] * 7919 + 104729 * (t + 1)) % (2 ** 31 - 1))      # several well-separated streams
                    gs = be.utils.random_clifford(n)
                    for q in (0, n // 2, n - 1):
                        x, z = gs[:, 2 * q], gs[:, 2 * q + 1]
                        cnt.append([int(((x == 0) & (z == 0)).sum()), int(((x == 1) & (z == 0)).sum()),
                                    int(((x == 1) & (z == 1)).sum()), int(((x == 0) & (z == 1)).sum())])
                return [{"op": "rowmarginal", "n": n, "cnt": cnt}]
            if k == "bigbirthday":
                be.seed(scn["seed"])
                seen = set()
                for t in range(scn["M"]):
                    seen.add(be.utils.random_clifford(scn["n"]).tobytes())      # the symplectic table itself
                return [{"op": "bigbirthday", "n": scn["n"], "M": scn["M"], "distinct": len(seen), "collisions": scn["M"] - len(seen)}]
            if k == "coin":
                be.seed(scn["seed"])
                c = [0, 0]
                P = be.paulialg
                for _ in range(scn["M"]):
                    S = St.zero_state(1)
                    o, _l = S.measure(P.paulis("X"))
                    c[be.p_ints(o)[0] & 1] += 1
                return [{"op": "fair", "name": "measure X on |0>", "c0": c[0], "c1": c[1]}]
            if k == "bitsigns":
                be.seed(scn["seed"])
                c = [0, 0]
                for _ in range(scn["M"]):
                    S = St.random_bit_state(2)
                    for p in be.p_ints(S.ps):
                        c[1 if p == 2 else 0] += 1
                return [{"op": "fair", "name": "random_bit_state signs", "c0": c[0], "c1": c[1]}]
            if k == "resample":
                differ = 0
                for t in range(20):
                    be.seed(scn["seed"] + t)
                    g = C.CliffordGate(0, 1)
                    a, b = St.identity_map(2), St.identity_map(2)
                    g.forward(a)
                    g.forward(b)
                    c1, c2 = St.identity_map(2), St.identity_map(2)
                    g.backward(c1)
                    g.backward(c2)
                    if be.p_list(a) != be.p_list(b) and be.p_list(c1) != be.p_list(c2):
                        differ += 1
                refused = False
                try:
                    C.CliffordGate(0, 1).compile()
                except Exception:
                    refused = True
                return [{"op": "resample", "differ": differ, "compile_refused": refused, "still_random": g.forward_map is None and g.backward_map is None}]
        except Exception as e:
            return [{"op": {"map": "randmap", "state": "randstate", "circ": "randmap", "tally": "dist"}.get(k, k), "name": scn.get("name", k), "exc": _exc(e)}]
        raise ValueError(k)


PROP = C16
