"""Building real circuits from TLC's program alphabet and recording layouts / probe images."""
from . import tlc


def read_programs(path):
    alpha, progs = {}, []
    with open(path) as f:
        for line in f:
            e = tlc.parse_tla_value(line)
            if e[0] == "A":
                spec = e[2]
                it = {"how": spec[0], "qs": spec[1]}
                if spec[0] == "gen":
                    it.update(k="gen", g=spec[2])
                elif spec[0] == "mz":
                    it.update(k="mz")
                else:
                    it.update(k="map", m=spec[2], mi=spec[3])
                alpha[e[1]] = it
            elif e[0] == "P":
                progs.append((e[1], e[2]))
    return alpha, progs


def item_of_spec(spec):
    it = {"how": spec[0], "qs": spec[1]}
    if spec[0] == "gen":
        it.update(k="gen", g=spec[2])
    elif spec[0] == "mz":
        it.update(k="mz")
    else:
        it.update(k="map", m=spec[2], mi=spec[3])
    return it


def read_sim_programs(printed):
    """behaviours of MC_CircuitSim: list of (items, model layout)"""
    progs, cur = [], None
    for e in printed:
        if e[0] != "G":
            continue
        if e[1] == 1:
            cur = {"items": [], "layout": None}
            progs.append(cur)
        cur["items"].append(item_of_spec(e[2]))
        cur["layout"] = e[3]
    return progs


def wire_item(it):
    w = {"k": it["k"], "qs": it["qs"]}
    for f in ("g", "m", "mi"):
        if f in it:
            w[f] = it[f]
    return w


def place(g, qs, n):
    full = [0] * n + [g[-1]]
    for a, q in enumerate(qs):
        full[q - 1] = g[a]
    return full


LABEL_TYPE = [None]       # set by a driver: gates are then declared with numpy integer labels of this type


def make_gate(be, it, n, variant=0):
    C = be.circuit
    qs0 = [q - 1 for q in it["qs"]]
    if LABEL_TYPE[0]:
        import numpy
        qs0 = [getattr(numpy, LABEL_TYPE[0])(q) for q in qs0]
    how = it["how"]
    if how.startswith("named:") and not hasattr(C, "CNOT"):
        how = "fwd"          # torchclifford has no named constructors: specify the table as a forward map
    if how.startswith("named:"):
        name = how.split(":")[1]
        if name == "CNOTrev":
            return C.CNOT(qs0[1], qs0[0])
        return getattr(C, name)(*qs0)
    if how == "gen":
        if variant % 4 == 3 and n > len(it["qs"]):
            # the generator is handed over on a larger, explicitly labelled set of qubits, with an identity factor on the
            # extra one (same gate: the constructor condenses the generator to its support)
            import numpy
            extra = max(q for q in range(1, n + 1) if q not in it["qs"])
            ext = sorted(it["qs"] + [extra])
            letters = dict(zip(it["qs"], it["g"][:-1]))
            eg = [letters.get(q, 0) for q in ext] + [it["g"][-1]]
            labels = [q - 1 for q in ext]
            if be.name == "py":
                return C.clifford_rotation_gate(be.pauli(eg), numpy.array(labels))
            return C.clifford_rotation_gate(be.pauli(eg), (labels, tuple(labels), numpy.array(labels), be.torch.tensor(labels))[variant // 4 % 4])
        if variant % 2 == 0:
            g = C.CliffordGate(*qs0)
            g.set_generator(be.pauli(it["g"]))
            return g
        return C.clifford_rotation_gate(be.pauli(place(it["g"], it["qs"], n)))
    g = C.CliffordGate(*qs0)
    if how in ("fwd", "both"):
        g.set_forward_map(be.cmap(it["m"]))
    if how in ("bwd", "both"):
        g.set_backward_map(be.cmap(it["mi"]))
    return g


def build(be, items, n, cls, mode, variant):
    """returns (circuit, gates in program order)"""
    C = be.circuit

    def new():
        if cls == "Circuit":
            return C.Circuit(n)
        if be.name == "torch":
            c = C.CliffordCircuit()
            c.N = n
            return c
        return C.CliffordCircuit(n)

    gates = []
    for j, it in enumerate(items):
        gates.append(None if it["k"] == "mz" else make_gate(be, it, n, j + 2 * len(items)))

    def add(circ, j):
        it = items[j]
        if it["k"] == "mz":
            circ.measure(*[q - 1 for q in it["qs"]])
            gates[j] = circ.last_layer
        else:
            circ.take(gates[j])

    if variant == "composed":
        h = len(items) // 2
        a, b = new(), new()
        for j in range(h):
            add(a, j)
        for j in range(h, len(items)):
            add(b, j)
        circ = a.compose(b)
        circ._verif_other = (b, h)
    else:
        circ = new()
        for j in range(len(items)):
            add(circ, j)
    orig = circ
    if mode == "layers":
        for layer in circ.layers_forward():
            if hasattr(layer, "compile"):
                layer.compile(n)
    elif mode == "circuit":
        circ.compile()
    if variant == "copy":
        circ = orig.copy()
    return circ, orig, gates


def layout_of(circ, orig, gates):
    """layers as lists of 1-based program indices; for a copy the position in the original is used"""
    idx = {id(g): j + 1 for j, g in enumerate(gates)}
    out = []
    la, lb = list(circ.layers_forward()), list(orig.layers_forward())
    if len(la) != len(lb):
        return [[0]]
    for a, b in zip(la, lb):
        if hasattr(b, "gates"):
            if not hasattr(a, "gates") or len(a.gates) != len(b.gates):
                return [[0]]
            lay = []
            for ga, gb in zip(a.gates, b.gates):
                if tuple(ga.qubits) != tuple(gb.qubits):
                    return [[0]]
                lay.append(idx.get(id(gb), 0))
            if lay:
                out.append(lay)
        else:
            out.append([idx.get(id(b), 0)])
    return out


def describe(be, c, items):
    """printed form of a circuit as a list of lines, and per item whether its gate was declared with the qubits reversed
    (only CNOT(target-first) of pyclifford's named constructors); judged by TraceCircuit!Drift_CircuitRepr"""
    named = hasattr(be.circuit, "CNOT")
    return {"repr": repr(c).split("\n"),
            "rev": [1 if (named and it.get("how") == "named:CNOTrev") else 0 for it in items]}
