"""Plain enumerations of finite input alphabets (no algebra)."""
import itertools


def strings(n):
    return [list(s) for s in itertools.product(range(4), repeat=n)]


def paulis(n, phases=(0, 1, 2, 3)):
    return [s + [k] for s in strings(n) for k in phases]


def herm(n, identity=True):
    out = []
    for s in strings(n):
        if not identity and not any(s):
            continue
        for k in (0, 2):
            out.append(s + [k])
    return out


def subsets(n, sizes=None):
    """ascending 1-based qubit tuples"""
    out = []
    for k in range(1, n + 1):
        if sizes and k not in sizes:
            continue
        out.extend([list(c) for c in itertools.combinations(range(1, n + 1), k)])
    return out


def idmap(n):
    rows = []
    for i in range(n):
        x = [0] * n + [0]
        x[i] = 1
        z = [0] * n + [0]
        z[i] = 3
        rows += [x, z]
    return rows
