"""Run some scenarios of a check in a child interpreter started with  python -O  (assert statements stripped): the
library must behave the same when assertions are disabled -- validation asserts may vanish, but no work may hide in one.

usage:  python -O -m harness.optrun <ID> <backend> <scenarios.json> <out.ndjson>
"""
import importlib
import json
import sys


def main(pid, bname, inp, outp):
    from . import backend
    mod = importlib.import_module("harness.props." + pid.lower())
    prop = mod.PROP("quick", 0)
    be = backend.get(bname)
    with open(outp, "w") as fo:
        for scn in json.load(open(inp)):
            for rec in prop.execute(scn, be):
                rec.setdefault("pkg", be.name)
                rec["opt"] = True
                fo.write(json.dumps(rec) + "\n")


def run(pid, bname, scns, wd):
    """called from a driver: returns the records produced by the -O child"""
    import os
    import subprocess
    from .tlc import VERIF, MachineryError
    inp, outp = os.path.join(wd, "opt_in.json"), os.path.join(wd, "opt_out.ndjson")
    json.dump(scns, open(inp, "w"))
    env = dict(os.environ, PYTHONPATH=VERIF + os.pathsep + os.environ.get("PYTHONPATH", ""))
    env.pop("VERIF_CHILD", None)
    env.pop("VERIF_HEARTBEAT", None)
    p = subprocess.run(["/venv/bin/python", "-O", "-m", "harness.optrun", pid, bname, inp, outp], cwd=VERIF, env=env,
                       capture_output=True, text=True, timeout=1800)
    if p.returncode != 0:
        raise MachineryError("python -O child failed: " + p.stderr[-800:])
    return [json.loads(l) for l in open(outp)]


if __name__ == "__main__":
    if __debug__:
        sys.exit("harness.optrun must be started with python -O")
    main(*sys.argv[1:5])
