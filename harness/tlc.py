"""Thin wrapper around TLC: run a (module, cfg), parse counters, violations, PrintT tuples.

Exit-code policy of the framework (see DESIGN.md 2.6): a TLC *machinery* failure (parse
error, missing file, timeout) raises MachineryError -> ./check exits 2, never 1.
"""
import json
import os
import re
import shutil
import subprocess
import time

VERIF = os.path.dirname(os.path.dirname(os.path.abspath(__file__)))
SPEC = os.path.join(VERIF, "spec")
WORK = os.environ.get("VERIF_WORK", os.path.join(VERIF, "work"))
JAR = "/opt/veriftools/tla/tla2tools.jar:/opt/veriftools/tla/CommunityModules-deps.jar"


class MachineryError(Exception):
    pass


_TUP = re.compile(r"<<|>>")


def parse_tla_value(line):
    """Parse a TLA+ value printed by PrintT made only of tuples, ints, strings, booleans."""
    line = line.strip()
    if line.startswith('"'):
        line = json.loads(line)
    s = _TUP.sub(lambda m: "[" if m.group(0) == "<<" else "]", line.strip())
    s = s.replace("TRUE", "true").replace("FALSE", "false")
    return json.loads(s)


class TlcResult(object):
    def __init__(self):
        self.rc = None
        self.out_path = None
        self.generated = 0
        self.distinct = 0
        self.depth = 0
        self.violations = []   # list of dicts {kind, name, state(dict var->text)}
        self.errors = []       # other TLC errors (machinery)
        self.wall = 0.0
        self.coverage = {}     # action name -> (distinct, total)
        self.printed = []      # parsed PrintT tuples (only when collect=True)

    @property
    def ok(self):
        return not self.violations and not self.errors


def run_tlc(module, cfg, tag, workers=16, simulate=None, depth=None, seed=None, env=None,
            timeout=3600, collect=False, print_file=None, cont=False, coverage=False,
            extra=None, deadlock=False, heap="4g"):
    """Run TLC on spec/<module>.tla with spec/<cfg>.  `tag` names the scratch directory.

    collect=True  -> PrintT tuple lines (starting with <<) are parsed into result.printed
    print_file    -> PrintT tuple lines are streamed (raw) into this file instead
    """
    wd = os.path.join(WORK, tag)
    shutil.rmtree(wd, ignore_errors=True)
    os.makedirs(wd)
    out_path = os.path.join(wd, "tlc.out")
    # TLC unpacks its standard modules into a fresh directory under java.io.tmpdir on every start: keep that inside the
    # scratch directory of this run (removed below) instead of filling /tmp
    jtmp = os.path.join(wd, "jtmp")
    os.makedirs(jtmp)
    cmd = ["java", "-XX:+UseParallelGC", "-Xss512m", "-Xmx" + heap, "-Djava.io.tmpdir=" + jtmp, "-cp", JAR, "tlc2.TLC",
           "-workers", str(workers), "-metadir", os.path.join(wd, "meta"),
           "-noGenerateSpecTE", "-config", cfg]
    if simulate:
        cmd += ["-simulate", simulate]
        if depth:
            cmd += ["-depth", str(depth)]
    if seed is not None:
        cmd += ["-seed", str(seed)]
    if cont:
        cmd += ["-continue"]
    if coverage:
        cmd += ["-coverage", "1"]
    if not deadlock:
        cmd += ["-deadlock"]      # -deadlock DISABLES deadlock checking
    if extra:
        cmd += list(extra)
    cmd += [module + ".tla"]
    e = dict(os.environ)
    if env:
        e.update({k: str(v) for k, v in env.items()})
    t0 = time.time()
    res = TlcResult()
    res.out_path = out_path
    with open(out_path, "w") as fo:
        try:
            p = subprocess.run(cmd, cwd=SPEC, stdout=fo, stderr=subprocess.STDOUT, env=e, timeout=timeout)
            res.rc = p.returncode
        except subprocess.TimeoutExpired:
            raise MachineryError("TLC timeout after %ss: %s %s" % (timeout, module, cfg))
    res.wall = time.time() - t0
    shutil.rmtree(jtmp, ignore_errors=True)
    _parse(res, collect, print_file)
    # exhaustive runs print from several workers: the order of the emitted lines depends on thread scheduling.  Sort them,
    # so that what a driver samples with VERIF_SEED depends on the seed only (simulation runs are single-worker and
    # their order is the behaviour itself: left alone)
    if simulate is None:
        if print_file:
            with open(print_file) as f:
                lines = sorted(f.readlines())
            with open(print_file, "w") as f:
                f.writelines(lines)
        elif collect:
            res.printed.sort(key=lambda v: json.dumps(v))
    return res


_GEN = re.compile(r"^(\d+) states generated, (\d+) distinct states found")
_SIMGEN = re.compile(r"^The number of states generated: (\d+)")
_DEPTH = re.compile(r"^The depth of the complete state graph search is (\d+)")
_INV0 = re.compile(r"^Error: Invariant (\S+) is violated by the initial state")
_INV = re.compile(r"^Error: Invariant (\S+) is violated\.")
_ACT = re.compile(r"^Error: Action property (\S+) is violated")
_ASSUME = re.compile(r"^Error: Assumption .*line (\d+), col (\d+) to line (\d+).* of module (\S+) is false")
_POST = re.compile(r"^Error: .*[Pp]ostcondition")
_VAR = re.compile(r"^(?:/\\ )?(\w+) = (.*)$")
_COV = re.compile(r"^<(\w+) line (\d+), col \d+ to line \d+, col \d+ of module (\w+)>: (\d+):(\d+)")


def _parse(res, collect, print_file):
    pf = open(print_file, "w") if print_file else None
    cur = None
    with open(res.out_path) as f:
        for line in f:
            if line.startswith("<<") or line.startswith('"<<'):
                if pf:
                    pf.write(line)
                elif collect:
                    try:
                        res.printed.append(parse_tla_value(line))
                    except Exception:
                        res.errors.append("unparsable PrintT line: " + line[:200])
                continue
            m = _GEN.match(line)
            if m:
                res.generated, res.distinct = int(m.group(1)), int(m.group(2))
                continue
            m = _SIMGEN.match(line)
            if m:
                res.generated = res.distinct = int(m.group(1))
                continue
            m = _DEPTH.match(line)
            if m:
                res.depth = int(m.group(1))
                continue
            m = _INV0.match(line) or _INV.match(line)
            if m:
                cur = {"kind": "invariant", "name": m.group(1), "state": {}}
                res.violations.append(cur)
                continue
            m = _ACT.match(line)
            if m:
                cur = {"kind": "action_property", "name": m.group(1), "state": {}}
                res.violations.append(cur)
                continue
            m = _ASSUME.match(line)
            if m:
                cur = {"kind": "assumption", "name": "%s:%s" % (m.group(4), m.group(1)), "state": {}}
                res.violations.append(cur)
                continue
            if _POST.match(line):
                cur = {"kind": "postcondition", "name": "post", "state": {}}
                res.violations.append(cur)
                continue
            if line.startswith("Error:"):
                txt = line.strip()
                # follow-up lines of a violation ("The behavior up to this point is:") are not errors
                if "behavior up to this point" in txt or "The error occurred when TLC was" in txt:
                    continue
                if txt.startswith("Error: The following behavior constitutes a counter-example"):
                    continue
                res.errors.append(txt)
                cur = None
                continue
            m = _VAR.match(line)
            if m and cur is not None:
                cur["state"].setdefault(m.group(1), m.group(2).strip())
                continue
            m = _COV.match(line)
            if m:
                res.coverage[m.group(1)] = (int(m.group(4)), int(m.group(5)))
    if pf:
        pf.close()
    if res.rc not in (0, 10, 11, 12, 13) and not res.violations and not res.errors:
        res.errors.append("TLC exit code %s" % res.rc)
    # rc 12 = safety violation, 13 = liveness, 10 = assumption, 11 = deadlock
    if res.rc in (150, 151, 152, 153, 255, 1) and not res.violations and not res.errors:
        res.errors.append("TLC failed, rc=%s, see %s" % (res.rc, res.out_path))


def require_clean(res, what):
    """Model runs must be clean; anything else is reported by the caller."""
    if res.errors:
        tail = ""
        try:
            with open(res.out_path) as f:
                tail = "".join(f.readlines()[-25:])
        except Exception:
            pass
        raise MachineryError("%s: TLC errors %s\n%s" % (what, res.errors[:3], tail))
