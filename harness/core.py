"""Generic check runner: model runs -> scenarios -> replay into the code -> TLC judges the trace.

A property module (harness/props/cNN.py) provides a subclass of Prop.  The runner
  1. runs the property's TLC model-checking jobs (M1/M2) and collects states/transitions;
  2. asks the property for scenarios (possibly parsed from TLC's emitted edges, M3);
  3. executes every scenario against the real library (both backends where applicable) and
     writes the observations as NDJSON records;
  4. lets TLC judge every record against the trace specification (M4);
  5. classifies rejected records against known_findings.json, writes replay files, evidence.
"""
import concurrent.futures
import json
import os
import random
import shutil
import subprocess
import sys
import time
import traceback

from . import tlc
from .tlc import MachineryError, VERIF, WORK

# mutation canaries set VERIF_WORK so that they never touch the real evidence / replay directories
_OUT = os.environ.get("VERIF_WORK") or VERIF
EVID = os.path.join(_OUT, "evidence")
REPLAY = os.path.join(_OUT, "replay")
KF_FILE = os.path.join(VERIF, "known_findings.json")
MAX_REPORT = 25          # VIOLATION lines printed per clause (all are counted)


def log(msg):
    sys.stderr.write("[%s] %s\n" % (time.strftime("%H:%M:%S"), msg))
    sys.stderr.flush()


class TraceWriter(object):
    def __init__(self, wd, chunk=20000):
        self.wd = wd
        self.chunk = chunk
        self.files = []
        self.f = None
        self.n_in_file = 0
        self.total = 0
        self.index = []      # per file: list of sid
        self.scns = []
        self.per_op = {}
        self.samples = []

    def new_scn(self, scn):
        self.scns.append(scn)
        return len(self.scns) - 1

    def add(self, rec, sid):
        if self.f is None or self.n_in_file >= self.chunk:
            self._roll()
        self.f.write(json.dumps(rec, separators=(",", ":")))
        self.f.write("\n")
        self.index[-1].append(sid)
        self.n_in_file += 1
        self.total += 1
        key = "%s/%s" % (rec.get("pkg", "-"), rec.get("op", "-"))
        self.per_op[key] = self.per_op.get(key, 0) + 1
        if len(self.samples) < 3 and self.per_op[key] == 1:
            self.samples.append(rec)

    def _roll(self):
        if self.f:
            self.f.close()
        path = os.path.join(self.wd, "trace_%04d.ndjson" % len(self.files))
        self.files.append(path)
        self.index.append([])
        self.f = open(path, "w")
        self.n_in_file = 0

    def close(self):
        if self.f:
            self.f.close()
            self.f = None


def judge(module, cfg, files, tag, env_extra=None, timeout=3600, heap="3g"):
    """Run the trace spec over every file (parallel TLC processes).  Returns a list of
    (file_index, line_index (1-based), clause).  Verdicts are total: if TLC cannot evaluate a clause on some
    record (malformed value), that record is rejected with clause EvalError and the other records of the file
    are still judged (the file is split around it, by bisection when TLC does not name the record)."""
    results = []
    # work items: (file index, path, offset of its first record in the original file)
    todo = [(i, f, 0) for i, f in enumerate(files)]
    serial = [0]

    def one(item):
        i, path, off = item
        env = {"TRACE_FILE": path}
        if env_extra:
            env.update(env_extra)
        serial[0] += 1
        r = tlc.run_tlc(module, cfg, "%s_j%04d_%d" % (tag, i, off), workers=1, env=env, cont=True, timeout=timeout, heap=heap)
        return item, r

    import re as _re
    rounds = 0
    while todo:
        rounds += 1
        if rounds > 60:
            raise MachineryError("trace validation %s does not terminate" % module)
        nxt = []
        with concurrent.futures.ThreadPoolExecutor(max_workers=min(16, max(1, len(todo)))) as ex:
            for (i, path, off), r in ex.map(one, todo):
                lines = open(path).read().splitlines()
                if r.errors:
                    txt = open(r.out_path).read()
                    if "Parsing or semantic analysis failed" in txt or "TLC exit code" in " ".join(r.errors) and not lines:
                        tlc.require_clean(r, "trace validation %s on %s" % (module, path))
                    m = _re.search(r"^(?:/\\ )?l = (\d+)\s*$", txt, _re.M)
                    if len(lines) == 1:
                        results.append((i, off + 1, "EvalError"))
                        continue
                    if m:
                        bad = int(m.group(1))
                        results.append((i, off + bad, "EvalError"))
                        parts = [(lines[:bad - 1], off), (lines[bad:], off + bad)]
                    else:
                        h = len(lines) // 2
                        parts = [(lines[:h], off), (lines[h:], off + h)]
                    for k, (ls, o) in enumerate(parts):
                        if ls:
                            nf = "%s.part_%d_%d" % (files[i], o, len(ls))
                            open(nf, "w").write("\n".join(ls) + "\n")
                            nxt.append((i, nf, o))
                    continue
                if r.distinct != len(lines):
                    raise MachineryError("trace validation %s: %d records but TLC saw %d initial states (%s)"
                                         % (module, len(lines), r.distinct, r.out_path))
                for v in r.violations:
                    lv = v["state"].get("l")
                    if lv is None:
                        raise MachineryError("cannot locate violating record in %s" % r.out_path)
                    results.append((i, off + int(lv), v["name"]))
                shutil.rmtree(os.path.dirname(r.out_path), ignore_errors=True)
        todo = nxt
    return results


class Known(object):
    def __init__(self):
        self.entries = []
        if os.path.exists(KF_FILE):
            self.entries = json.load(open(KF_FILE)).get("findings", [])
        self.hits = {}

    def match(self, prop, desc):
        for e in self.entries:
            if e.get("status") != "open" or e.get("property") != prop:
                continue
            m = e.get("match", {})
            ok = True
            for k, v in m.items():
                dv = desc.get(k)
                if k == "kf":
                    if v not in (dv or []):
                        ok = False
                        break
                elif isinstance(v, list):
                    if dv not in v:
                        ok = False
                        break
                elif dv != v:
                    ok = False
                    break
            if ok:
                self.hits[e["id"]] = self.hits.get(e["id"], 0) + 1
                return e
        return None


class Prop(object):
    """Base class of a property check."""
    id = "C00"
    level = "model_checking"
    trace_module = None
    trace_cfg = None
    backends = ("py",)
    assumptions = []

    def __init__(self, tier, seed):
        self.tier = tier
        self.seed = seed
        self.rng = random.Random(seed)
        self.wd = os.path.join(WORK, self.id)
        self.model_stats = []      # (name, generated, distinct, wall)
        self.model_violations = []  # (name, kind, detail)
        self.notes = {}

    # -- to override
    def models(self):
        """run M1/M2 TLC jobs; use self.model(...)"""
        return

    def scenarios(self):
        """yield scenario dicts"""
        return []

    def execute(self, scn, be):
        """run one scenario on backend `be`; return list of record dicts"""
        raise NotImplementedError

    def describe(self, rec, clause):
        """descriptor used for known-finding matching"""
        d = {"clause": clause, "op": rec.get("op"), "pkg": rec.get("pkg")}
        if "exc" in rec:
            d["exc"] = rec["exc"]
        if "kf" in rec:
            d["kf"] = rec["kf"]
        return d

    def nontrivial(self, rec):
        return True

    def post(self, tw):
        """run-level checks after all records exist; return list of (clause, detail dict)"""
        return []

    # -- helpers
    def model(self, module, cfg, name=None, expect_distinct=None, **kw):
        name = name or cfg.replace(".cfg", "")
        t0 = time.time()
        r = tlc.run_tlc(module, cfg, "%s_m_%s" % (self.id, name), **kw)
        tlc.require_clean(r, "model %s" % name)
        self.model_stats.append({"model": name, "generated": r.generated, "distinct": r.distinct,
                                 "wall_s": round(time.time() - t0, 1)})
        for v in r.violations:
            self.model_violations.append({"model": name, "kind": v["kind"], "name": v["name"], "state": v["state"],
                                          "out": r.out_path})
        if expect_distinct is not None and r.distinct != expect_distinct and not r.violations:
            raise MachineryError("model %s: expected %d distinct states, got %d" % (name, expect_distinct, r.distinct))
        log("model %s: %d generated, %d distinct, %.1fs%s" % (name, r.generated, r.distinct, r.wall,
                                                               " VIOLATIONS" if r.violations else ""))
        return r


def _start_heartbeat():
    hb = os.environ.get("VERIF_HEARTBEAT")
    if not hb:
        return None
    import threading

    def beat():
        while True:
            try:
                os.utime(hb, None)
            except OSError:
                pass
            time.sleep(5)
    t = threading.Thread(target=beat, daemon=True)
    t.start()
    return hb + ".scn"


def run_check(prop_cls, tier, seed, replay=None):
    t0 = time.time()
    cur_file = _start_heartbeat()
    prop = prop_cls(tier, seed)
    shutil.rmtree(prop.wd, ignore_errors=True)
    os.makedirs(prop.wd)
    os.makedirs(EVID, exist_ok=True)
    known = Known()
    violations = []      # dicts
    known_lines = {}

    # 1. models
    # (replay also runs the models: scenarios refer to what they emit -- operand pools, gate alphabets, maps)
    prop.models()
    if replay is None:
        for mv in prop.model_violations:
            violations.append({"clause": "Model:" + mv["name"], "source": "model", "detail": mv, "rec": {"op": "model", "pkg": "spec"}, "scn": {"model": mv["model"]}})

    # 2./3. scenarios -> records
    from . import backend
    tw = TraceWriter(prop.wd, chunk=getattr(prop, "chunk", 20000))
    bes = [backend.get(b) for b in prop.backends]
    n_scn = 0
    from . import rejects
    rfam = getattr(prop, "refusal_family", None)
    if replay is not None:
        scn_iter = [replay["scn"]]
    elif rfam:
        # calls from the refusal table of API.tla (Drift_Refusal: model drift, never a verdict)
        import itertools
        scn_iter = itertools.chain(prop.scenarios(), rejects.scenarios(rfam, random.Random(seed + 4242), 12 if tier == "thorough" else 4))
    else:
        scn_iter = prop.scenarios()
    t1 = time.time()
    cur_f = open(cur_file, "w") if cur_file else None
    for scn in scn_iter:
        n_scn += 1
        sid = tw.new_scn(scn)
        if cur_f is not None and (n_scn % 50 == 1 or getattr(prop, "slow_scenarios", False)):
            cur_f.seek(0)
            cur_f.truncate()
            json.dump(scn, cur_f, default=str)
            cur_f.flush()
        for be in bes:
            if scn.get("pkg") and scn["pkg"] != be.name:
                continue
            try:
                recs = rejects.execute(scn, be) if scn.get("k") == "call" and "api" in scn else prop.execute(scn, be)
            except MachineryError:
                raise
            except Exception as e:     # a driver bug, not a verdict
                raise MachineryError("driver failure on scenario %r (%s): %s\n%s" % (scn, be.name, e, traceback.format_exc()))
            for rec in recs:
                rec.setdefault("pkg", be.name)
                tw.add(rec, sid)
    # thorough tier: the calls made by the repository's own tests, recorded under the plugin, are judged too
    fam = getattr(prop, "suite_family", None)
    if replay is None and fam and (tier == "thorough" or os.environ.get("VERIF_SUITE")):
        from . import suite
        recs = suite.collect(prop.id).get(fam[0], [])
        sid = tw.new_scn({"k": "suite", "note": "recorded from the repository's tests; not replayable as a scenario"})
        ns = 0
        for rec in recs:
            if rec.get("op") in fam[1] and rec.get("pkg") in prop.backends + (("torch",) if prop.id == "C13" else ()):
                tw.add(rec, sid)
                ns += 1
        prop.notes["suite_records"] = ns
        log("%s: %d records from the repository's tests" % (prop.id, ns))
    tw.close()
    log("%s: %d scenarios -> %d records in %.1fs" % (prop.id, n_scn, tw.total, time.time() - t1))

    # 4. judge
    rejected = []
    if tw.total:
        t2 = time.time()
        rejected = judge(prop.trace_module, prop.trace_cfg, tw.files, prop.id)
        log("%s: TLC judged %d records in %.1fs, %d clause rejections" % (prop.id, tw.total, time.time() - t2, len(rejected)))
    recs_cache = {}

    def get_rec(fi, li):
        if fi not in recs_cache:
            recs_cache[fi] = open(tw.files[fi]).read().splitlines()
        return json.loads(recs_cache[fi][li - 1])

    # clauses named KF_* are known-finding classifiers evaluated by TLC: a "rejection" of KF_x on a
    # record means the record matches classifier x (it is not a violation by itself)
    kf_hits = {}
    drift = {}
    for fi, li, clause in rejected:
        if clause.startswith("KF_"):
            kf_hits.setdefault((fi, li), []).append(clause)
        elif clause.startswith("Drift_"):
            # bitwise disagreement between the code and the implementation-shaped (L2) model: reported as
            # model drift in the evidence, never a verdict (DESIGN 2.7-2)
            drift[clause] = drift.get(clause, 0) + 1
    prop.notes["model_drift"] = drift
    for fi, li, clause in rejected:
        if clause.startswith("KF_") or clause.startswith("Drift_"):
            continue
        rec = get_rec(fi, li)
        if (fi, li) in kf_hits:
            rec["kf"] = kf_hits[(fi, li)]
        scn = tw.scns[tw.index[fi][li - 1]]
        violations.append({"clause": clause, "source": "trace", "rec": rec, "scn": scn})

    # run-level clauses
    for clause, detail in prop.post(tw):
        violations.append({"clause": clause, "source": "run", "rec": detail.get("rec", {"op": "run", "pkg": detail.get("pkg", "-")}),
                           "scn": detail.get("scn", {}), "detail": detail})

    # 5. classify, report
    new = 0
    shutil.rmtree(os.path.join(REPLAY, prop.id), ignore_errors=True)
    per_clause = {}
    out_lines = []
    for v in violations:
        desc = prop.describe(v["rec"], v["clause"])
        if v.get("detail") and isinstance(v["detail"], dict):
            for k in ("kf",):
                if k in v["detail"]:
                    desc[k] = v["detail"][k]
        e = known.match(prop.id, desc)
        if e is not None:
            known_lines[e["id"]] = e
            continue
        new += 1
        per_clause[v["clause"]] = per_clause.get(v["clause"], 0) + 1
        if per_clause[v["clause"]] <= MAX_REPORT:
            os.makedirs(os.path.join(REPLAY, prop.id), exist_ok=True)
            path = os.path.join(REPLAY, prop.id, "%04d.json" % new)
            json.dump({"property": prop.id, "clause": v["clause"], "source": v["source"], "scn": v["scn"],
                       "record": v["rec"], "detail": v.get("detail"), "tier": tier, "seed": seed,
                       "how": "./check %s --replay %s" % (prop.id, path)}, open(path, "w"), indent=1, default=str)
            out_lines.append("VIOLATION property=%s replay=%s clause=%s op=%s pkg=%s" % (
                prop.id, path, v["clause"], v["rec"].get("op"), v["rec"].get("pkg")))
    for eid, e in sorted(known_lines.items()):
        print("KNOWN-FINDING: property=%s %s: %s (%d records)" % (prop.id, eid, e.get("what", ""), known.hits.get(eid, 0)))
    for ln in out_lines:
        print(ln)
    for c, n in per_clause.items():
        if n > MAX_REPORT:
            print("... %d further rejections of clause %s not listed" % (n - MAX_REPORT, c))

    # evidence
    if replay is None:
        distinct = set()
        for fi, f in enumerate(tw.files):
            for line in open(f):
                distinct.add(hash(line))
        states = sum(m["distinct"] for m in prop.model_stats)
        trans = sum(m["generated"] for m in prop.model_stats)
        cov = {
            "states": max(states, 1) if prop.model_stats else 0,
            "transitions": max(trans, 1) if prop.model_stats else 0,
            "traces_validated_against_impl": tw.total,
            "samples": tw.samples[:3] or [{"note": "no records"}],
            "evaluations": max(tw.total, 1),
            "distinct_nontrivial": len(distinct),
            "rule": getattr(prop, "rule", "one NDJSON record per call of the real library; distinct = distinct record lines"),
            "models": prop.model_stats,
            "records_per_op": tw.per_op,
            "scenarios": n_scn,
            "exhaustive": bool(getattr(prop, "exhaustive", False)),
            "known_findings_hit": {k: known.hits.get(k, 0) for k in known_lines},
        }
        cov.update(prop.notes)
        if not prop.model_stats:
            cov.pop("states"); cov.pop("transitions")
        ev = {"property_id": prop.id, "tier": tier, "seed": seed, "level": prop.level, "coverage": cov,
              "assumptions": list(prop.assumptions), "wall_s": round(time.time() - t0, 1), "violations": new}
        json.dump(ev, open(os.path.join(EVID, prop.id + ".json"), "w"), indent=1, default=str)
        _validate_evidence(os.path.join(EVID, prop.id + ".json"))
    log("%s %s: %d records, %d new violations, %d known findings, %.1fs" % (prop.id, tier, tw.total, new, len(known_lines), time.time() - t0))
    return 1 if new else 0


def _validate_evidence(path):
    schema = "/root/.vp/EVIDENCE.schema.json"
    vt = shutil.which("python3-vt")
    if not vt or not os.path.exists(schema):
        return
    code = ("import json,sys,jsonschema; jsonschema.validate(json.load(open(sys.argv[1])), json.load(open(sys.argv[2])))")
    p = subprocess.run([vt, "-c", code, path, schema], capture_output=True, text=True)
    if p.returncode != 0:
        raise MachineryError("evidence %s does not validate: %s" % (path, p.stderr[-500:]))
