"""pytest plugin: record the public calls the repository's OWN tests make, as NDJSON records in the formats
of the trace specifications (code -> spec direction; the tests are the drivers, TLC is the judge).

Loaded with  `-p harness.recorder_plugin`  and PYTHONPATH=/verif; output directory in VERIF_REC_DIR.
Nothing in the repository is changed: public methods are wrapped at run time inside the pytest process.
Only calls on objects of at most MAXN qubits are recorded.  Whether a recorded pre-state is a valid tableau
is decided afterwards by TLC (records with invalid pre-states are dropped before judging).
"""
import json
import os

MAXN = 6
_files = {}
_depth = [0]


def _out(name, rec):
    d = os.environ.get("VERIF_REC_DIR")
    if not d:
        return
    f = _files.get(name)
    if f is None:
        f = open(os.path.join(d, name + ".ndjson"), "a")
        _files[name] = f
    f.write(json.dumps(rec, separators=(",", ":")) + "\n")
    f.flush()


def _qs(mask):
    if mask is None:
        return None
    m = mask.tolist() if hasattr(mask, "tolist") else list(mask)
    return [j + 1 for j, b in enumerate(m) if b]


def _install(be):
    P, St = be.paulialg, be.stabilizer
    pkg = be.name

    def herm(w):
        return w[-1] in (0, 2) and 9 not in w

    # ---- PauliList.rotate_by / transform_by (inherited by polynomials, maps, states)
    orig_rot = P.PauliList.rotate_by

    def rotate_by(self, generator, mask=None):
        rec = None
        try:
            if self.N <= MAXN and self.L <= 64:
                g = be.p_pauli(generator)
                if herm(g):
                    rec = {"op": "rot", "kind": type(self).__name__, "g": g, "ins": be.p_list(self), "pkg": pkg, "src": "suite"}
                    q = _qs(mask)
                    if q is not None:
                        rec["qs"] = q
                    if hasattr(self, "r"):
                        rec["r0"] = be.p_state(self)["r"]
        except Exception:
            rec = None
        ret = orig_rot(self, generator, mask=mask)
        if rec is not None:
            try:
                rec["outs"] = be.p_list(self)
                if "r0" in rec:
                    rec["r1"] = be.p_state(self)["r"]
                _out("clifford", rec)
            except Exception:
                pass
        return ret
    P.PauliList.rotate_by = rotate_by

    orig_tf = P.PauliList.transform_by

    def transform_by(self, clifford_map, mask=None):
        rec = None
        try:
            if self.N <= MAXN and self.L <= 64:
                rec = {"op": "transform", "kind": type(self).__name__, "m": be.p_list(clifford_map), "ins": be.p_list(self), "pkg": pkg, "src": "suite"}
                q = _qs(mask)
                if q is not None:
                    rec["qs"] = q
                if hasattr(self, "r"):
                    rec["r0"] = be.p_state(self)["r"]
        except Exception:
            rec = None
        ret = orig_tf(self, clifford_map, mask=mask)
        if rec is not None:
            try:
                rec["outs"] = be.p_list(self)
                if "r0" in rec:
                    rec["r1"] = be.p_state(self)["r"]
                _out("clifford", rec)
            except Exception:
                pass
        return ret
    P.PauliList.transform_by = transform_by

    # ---- CliffordMap.compose / inverse
    orig_comp = St.CliffordMap.compose

    def compose(self, other):
        ret = orig_comp(self, other)
        try:
            if self.N <= MAXN:
                _out("clifford", {"op": "compose", "a": be.p_list(self), "b": be.p_list(other), "ret": be.p_list(ret), "pkg": pkg, "src": "suite"})
        except Exception:
            pass
        return ret
    St.CliffordMap.compose = compose

    orig_inv = St.CliffordMap.inverse

    def inverse(self):
        ret = orig_inv(self)
        try:
            if self.N <= MAXN:
                _out("clifford", {"op": "inverse", "m": be.p_list(self), "ret": be.p_list(ret), "pkg": pkg, "src": "suite"})
        except Exception:
            pass
        return ret
    St.CliffordMap.inverse = inverse

    # ---- Pauli @ Pauli
    orig_mm = P.Pauli.__matmul__

    def matmul(self, other):
        ret = orig_mm(self, other)
        try:
            if type(self) is P.Pauli and type(other) is P.Pauli and type(ret) is P.Pauli and self.N <= 8:
                _out("c01", {"op": "mul", "a": be.p_pauli(self), "b": be.p_pauli(other), "ret": be.p_pauli(ret), "pkg": pkg, "src": "suite"})
        except Exception:
            pass
        return ret
    P.Pauli.__matmul__ = matmul

    # ---- StabilizerState.measure / expect / entropy
    S = St.StabilizerState
    orig_meas = S.measure

    def measure(self, obs):
        pre = None
        try:
            if self.N <= MAXN:
                pre = be.p_state(self)
                o = obs.stabilizers if isinstance(obs, S) else obs
                ow = be.p_list(o)
                if not all(herm(w) for w in ow) or len(ow) > 6:
                    pre = None
        except Exception:
            pre = None
        out, l2p = orig_meas(self, obs)
        if pre is not None:
            try:
                from .backend import _as_int
                li = _as_int(l2p)
                _out("stab", {"op": "steps", "pre": pre, "pkg": pkg, "src": "suite",
                              "entries": [{"kind": "measure", "obs": ow, "out": be.p_ints(out), "l2p": 99 if li is None else li, "post": be.p_state(self)}]})
            except Exception:
                pass
        return out, l2p
    S.measure = measure

    orig_exp = S.expect

    def expect(self, obs):
        ret = orig_exp(self, obs)
        try:
            if self.N <= MAXN and _depth[0] == 0:
                if isinstance(obs, S):
                    from .backend import dyadic, INEXACT
                    if self.r == 0:
                        _out("stab", {"op": "overlap", "pre": be.p_state(self), "other": be.p_state(obs), "val": dyadic(ret) or INEXACT, "pkg": pkg, "src": "suite"})
                elif type(obs) is P.PauliList:
                    ow = be.p_list(obs)
                    if all(herm(w) for w in ow) and len(ow) <= 64:
                        _out("stab", {"op": "expect", "pre": be.p_state(self), "obs": ow, "vals": be.p_ints(ret), "pkg": pkg, "src": "suite"})
        except Exception:
            pass
        return ret
    S.expect = expect

    orig_ent = S.entropy

    def entropy(self, subsys):
        ret = orig_ent(self, subsys)
        try:
            if self.N <= MAXN:
                from .backend import _as_int
                sub = list(subsys.tolist() if hasattr(subsys, "tolist") else subsys)
                if sub and isinstance(sub[0], bool):
                    reg = [j + 1 for j, b in enumerate(sub) if b]
                else:
                    reg = sorted(int(q) + 1 for q in sub)
                v = _as_int(ret)
                _out("stab", {"op": "entropy", "pre": be.p_state(self), "regions": [reg], "vals": [-99 if v is None else v], "pkg": pkg, "src": "suite"})
        except Exception:
            pass
        return ret
    S.entropy = entropy


def pytest_configure(config):
    if not os.environ.get("VERIF_REC_DIR"):
        return
    from . import backend
    for name in ("py", "torch"):
        try:
            _install(backend.get(name))
        except Exception as e:      # a package that cannot be imported is simply not recorded
            import sys
            sys.stderr.write("recorder: %s not instrumented: %s\n" % (name, e))
