"""pytest plugin: record the public calls the repository's OWN tests make, as NDJSON records in the formats
of the trace specifications (code -> spec direction; the tests are the drivers, TLC is the judge).

Loaded with  `-p harness.recorder_plugin`  and PYTHONPATH=/verif; output directory in VERIF_REC_DIR.
Nothing in the repository is changed: public methods are wrapped at run time inside the pytest process.
Only calls on objects of at most MAXN qubits are recorded.  Whether a recorded pre-state is a valid tableau
is decided afterwards by TLC (records with invalid pre-states are dropped before judging).
"""
import json
import os

MAXN = 6
_files = {}
_depth = [0]


def _out(name, rec):
    d = os.environ.get("VERIF_REC_DIR")
    if not d:
        return
    f = _files.get(name)
    if f is None:
        f = open(os.path.join(d, name + ".ndjson"), "a")
        _files[name] = f
    f.write(json.dumps(rec, separators=(",", ":")) + "\n")
    f.flush()


def _qs(mask):
    if mask is None:
        return None
    m = mask.tolist() if hasattr(mask, "tolist") else list(mask)
    return [j + 1 for j, b in enumerate(m) if b]


def _install(be):
    P, St = be.paulialg, be.stabilizer
    pkg = be.name

    def herm(w):
        return w[-1] in (0, 2) and 9 not in w

    # ---- PauliList.rotate_by / transform_by (inherited by polynomials, maps, states)
    orig_rot = P.PauliList.rotate_by

    def rotate_by(self, generator, mask=None):
        rec = None
        try:
            if self.N <= MAXN and self.L <= 64:
                g = be.p_pauli(generator)
                if herm(g):
                    rec = {"op": "rot", "kind": type(self).__name__, "g": g, "ins": be.p_list(self), "pkg": pkg, "src": "suite"}
                    q = _qs(mask)
                    if q is not None:
                        rec["qs"] = q
                    if hasattr(self, "r"):
                        rec["r0"] = be.p_state(self)["r"]
        except Exception:
            rec = None
        ret = orig_rot(self, generator, mask=mask)
        if rec is not None:
            try:
                rec["outs"] = be.p_list(self)
                if "r0" in rec:
                    rec["r1"] = be.p_state(self)["r"]
                _out("clifford", rec)
            except Exception:
                pass
        return ret
    P.PauliList.rotate_by = rotate_by

    orig_tf = P.PauliList.transform_by

    def transform_by(self, clifford_map, mask=None):
        rec = None
        try:
            if self.N <= MAXN and self.L <= 64:
                rec = {"op": "transform", "kind": type(self).__name__, "m": be.p_list(clifford_map), "ins": be.p_list(self), "pkg": pkg, "src": "suite"}
                q = _qs(mask)
                if q is not None:
                    rec["qs"] = q
                if hasattr(self, "r"):
                    rec["r0"] = be.p_state(self)["r"]
        except Exception:
            rec = None
        ret = orig_tf(self, clifford_map, mask=mask)
        if rec is not None:
            try:
                rec["outs"] = be.p_list(self)
                if "r0" in rec:
                    rec["r1"] = be.p_state(self)["r"]
                _out("clifford", rec)
            except Exception:
                pass
        return ret
    P.PauliList.transform_by = transform_by

    # ---- CliffordMap.compose / inverse
    orig_comp = St.CliffordMap.compose

    def compose(self, other):
        ret = orig_comp(self, other)
        try:
            if self.N <= MAXN:
                _out("clifford", {"op": "compose", "a": be.p_list(self), "b": be.p_list(other), "ret": be.p_list(ret), "pkg": pkg, "src": "suite"})
        except Exception:
            pass
        return ret
    St.CliffordMap.compose = compose

    orig_inv = St.CliffordMap.inverse

    def inverse(self):
        ret = orig_inv(self)
        try:
            if self.N <= MAXN:
                _out("clifford", {"op": "inverse", "m": be.p_list(self), "ret": be.p_list(ret), "pkg": pkg, "src": "suite"})
        except Exception:
            pass
        return ret
    St.CliffordMap.inverse = inverse

    # ---- Pauli @ Pauli
    orig_mm = P.Pauli.__matmul__

    def matmul(self, other):
        ret = orig_mm(self, other)
        try:
            if type(self) is P.Pauli and type(other) is P.Pauli and type(ret) is P.Pauli and self.N <= 8:
                _out("c01", {"op": "mul", "a": be.p_pauli(self), "b": be.p_pauli(other), "ret": be.p_pauli(ret), "pkg": pkg, "src": "suite"})
        except Exception:
            pass
        return ret
    P.Pauli.__matmul__ = matmul

    # ---- StabilizerState.measure / expect / entropy
    S = St.StabilizerState
    orig_meas = S.measure

    def measure(self, obs):
        pre = None
        try:
            if self.N <= MAXN:
                pre = be.p_state(self)
                o = obs.stabilizers if isinstance(obs, S) else obs
                ow = be.p_list(o)
                if not all(herm(w) for w in ow) or len(ow) > 6:
                    pre = None
        except Exception:
            pre = None
        out, l2p = orig_meas(self, obs)
        if pre is not None:
            try:
                from .backend import _as_int
                li = _as_int(l2p)
                _out("stab", {"op": "steps", "pre": pre, "pkg": pkg, "src": "suite",
                              "entries": [{"kind": "measure", "obs": ow, "out": be.p_ints(out), "l2p": 99 if li is None else li, "post": be.p_state(self)}]})
            except Exception:
                pass
        return out, l2p
    S.measure = measure

    orig_exp = S.expect

    def expect(self, obs):
        ret = orig_exp(self, obs)
        try:
            if self.N <= MAXN and _depth[0] == 0:
                if isinstance(obs, S):
                    from .backend import dyadic, INEXACT
                    if self.r == 0:
                        _out("stab", {"op": "overlap", "pre": be.p_state(self), "other": be.p_state(obs), "val": dyadic(ret) or INEXACT, "pkg": pkg, "src": "suite"})
                elif type(obs) is P.PauliList:
                    ow = be.p_list(obs)
                    if all(herm(w) for w in ow) and len(ow) <= 64:
                        _out("stab", {"op": "expect", "pre": be.p_state(self), "obs": ow, "vals": be.p_ints(ret), "pkg": pkg, "src": "suite"})
        except Exception:
            pass
        return ret
    S.expect = expect

    orig_ent = S.entropy

    def entropy(self, subsys):
        ret = orig_ent(self, subsys)
        try:
            if self.N <= MAXN:
                from .backend import _as_int
                sub = list(subsys.tolist() if hasattr(subsys, "tolist") else subsys)
                if sub and isinstance(sub[0], bool):
                    reg = [j + 1 for j, b in enumerate(sub) if b]
                else:
                    reg = sorted(int(q) + 1 for q in sub)
                v = _as_int(ret)
                _out("stab", {"op": "entropy", "pre": be.p_state(self), "regions": [reg], "vals": [-99 if v is None else v], "pkg": pkg, "src": "suite"})
        except Exception:
            pass
        return ret
    S.entropy = entropy


def _install_more(be):
    """further wrappers: state/map conversion, stabilizer_state(), post-selection, bit-string probabilities,
    sampling and the density-matrix expansion (records in the formats of TraceStab / TraceC19)"""
    P, St = be.paulialg, be.stabilizer
    pkg = be.name
    S = St.StabilizerState
    M = St.CliffordMap

    def herm(w):
        return w[-1] in (0, 2) and 9 not in w

    orig_to_state = M.to_state

    def to_state(self, r=None):
        ret = orig_to_state(self, r)
        try:
            if self.N <= 4 and _depth[0] == 0:
                rarg = 0 if r is None else int(r)
                _out("stab", {"op": "tostate", "m": be.p_list(self), "rarg": rarg, "post": be.p_state(ret), "pkg": pkg, "src": "suite"})
        except Exception:
            pass
        return ret
    M.to_state = to_state

    orig_post = getattr(S, "postselect", None)
    if orig_post is not None:
        def postselect(self, paulistring, postselect_res):
            pre = None
            try:
                if self.N <= 4 and type(paulistring) is P.Pauli:
                    pre = be.p_state(self)
                    pw = be.p_pauli(paulistring)
                    if not herm(pw) or int(postselect_res) not in (0, 1):
                        pre = None
            except Exception:
                pre = None
            try:
                ret = orig_post(self, paulistring, postselect_res)
            except ValueError:
                if pre is not None:
                    _out("c14", {"op": "postselect", "pre": pre, "p": pw, "b": int(postselect_res), "refused": "ValueError", "pkg": pkg, "src": "suite"})
                raise
            if pre is not None:
                try:
                    from .backend import dyadic, INEXACT
                    _out("c14", {"op": "postselect", "pre": pre, "p": pw, "b": int(postselect_res), "prob": dyadic(ret) or INEXACT,
                                 "post": be.p_state(self), "pkg": pkg, "src": "suite"})
                except Exception:
                    pass
            return ret
        S.postselect = postselect

    orig_prob = S.get_prob

    def get_prob(self, readout):
        _depth[0] += 1
        try:
            ret = orig_prob(self, readout)
        finally:
            _depth[0] -= 1
        try:
            if self.N <= 4 and _depth[0] == 0 and self.r == 0:
                from .backend import dyadic, INEXACT, _as_int
                bits = [_as_int(b) for b in (readout.tolist() if hasattr(readout, "tolist") else list(readout))]
                if all(b in (0, 1) for b in bits):
                    _out("stab", {"op": "prob", "pre": be.p_state(self), "bits": [bits], "vals": [dyadic(ret) or INEXACT], "pkg": pkg, "src": "suite"})
        except Exception:
            pass
        return ret
    S.get_prob = get_prob

    orig_sample = S.sample

    def sample(self, L):
        ret = orig_sample(self, L)
        try:
            if self.N <= 5 and int(L) <= 64:
                st = be.p_state(self)
                _out("c19", {"op": "sample", "pre": st, "L": int(L), "samples": be.p_list(ret), "pre1": st, "pkg": pkg, "src": "suite"})
        except Exception:
            pass
        return ret
    S.sample = sample

    orig_ss = St.stabilizer_state

    def stabilizer_state(*stabilizers):
        ret = orig_ss(*stabilizers)
        try:
            lst = P.paulis(*stabilizers)
            if lst.N <= 4 and lst.L <= lst.N:
                ws = be.p_list(lst)
                if all(herm(w) for w in ws):
                    _out("stab", {"op": "fromstab", "n": int(lst.N), "stabs": ws, "fmt": "suite", "post": be.p_state(ret), "pkg": pkg, "src": "suite"})
        except Exception:
            pass
        return ret
    St.stabilizer_state = stabilizer_state
    # (the packages re-export the constructor: patch the names users import)
    for mod in (be.lib,):
        if getattr(mod, "stabilizer_state", None) is orig_ss:
            mod.stabilizer_state = stabilizer_state


def pytest_configure(config):
    if not os.environ.get("VERIF_REC_DIR"):
        return
    from . import backend
    for name in ("py", "torch"):
        try:
            _install(backend.get(name))
            _install_more(backend.get(name))
        except Exception as e:      # a package that cannot be imported is simply not recorded
            import sys
            sys.stderr.write("recorder: %s not instrumented: %s\n" % (name, e))
