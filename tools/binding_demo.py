#!/venv/bin/python
"""Demonstration of the binding between recorded traces and the TLA+ trace specifications (DESIGN 2.8).

usage: tools/binding_demo.py <ID> [<ID> ...]

For every operation kind that the quick run of a check records, one recorded observation is taken, ONE number in
one of its result fields is changed (a letter, a phase, an outcome bit, a rank, a value), and TLC is asked to judge
the corrupted record alone: it must reject it (a clause that is not a Drift_* / KF_* clause).  The untouched record
must be accepted.  Prints a table; exit 1 if some corrupted record is accepted."""
import json
import os
import shutil
import sys
import tempfile

HERE = os.path.dirname(os.path.dirname(os.path.abspath(__file__)))
sys.path.insert(0, HERE)
RESULT_FIELDS = ("ret", "outs", "post", "vals", "val", "fwd", "imgs", "toks", "rets", "mat", "out", "prob", "heff", "samples",
                 "py", "after", "copy", "again", "a1", "text", "back", "bwd", "l", "entries", "probes", "steps", "cnt", "collisions",
                 "terms", "lines", "support", "chi2m", "c0", "differ", "wpost", "wfwd", "mid", "acq", "ipow", "w", "L",
                 "maps", "letters", "qubits", "bits", "out2", "out1", "gens", "snap", "povm", "wbwd", "samples", "outputs")


BIG = [False]       # statistical acceptance regions are intervals: there a count is changed by a lot, not by one
STAT_OPS = ("birthday", "bigbirthday", "fair", "resample", "dist", "marginal", "sampledist", "widesample")


def corrupt(v, first=False):
    """change one number (the last one found, or the first one with first=True); returns (changed?, value)"""
    if isinstance(v, bool):
        return True, (not v)
    if isinstance(v, int) and BIG[0]:
        return True, v * 7 + 997
    if isinstance(v, int):
        if v == -1:
            return True, 1              # (+1 / -1 outcome records)
        return True, (v + 1) % 4 if 0 <= v <= 3 else v + 1
    if isinstance(v, str):
        return (True, v + "x") if v else (False, v)
    if isinstance(v, list):
        order = range(len(v)) if first else range(len(v) - 1, -1, -1)
        for i in order:
            ok, nv = corrupt(v[i], first)
            if ok:
                return True, v[:i] + [nv] + v[i + 1:]
        return False, v
    if isinstance(v, dict):
        for k in sorted(v, key=lambda k: (k not in RESULT_FIELDS, k)):
            if k in ("ins", "kind", "obs", "pre", "m", "g", "a", "b", "prog", "qs"):
                continue                # (inputs: changing them changes the question, not the answer)
            ok, nv = corrupt(v[k], first)
            if ok:
                d = dict(v)
                d[k] = nv
                return True, d
        return False, v
    return False, v


def candidates(v, limit=8):
    """several single-number corruptions of a value: for dictionaries one per (result) key, for lists at the last and at the
    first position"""
    out = []
    if isinstance(v, dict) and isinstance(v.get("terms"), list) and v["terms"] and isinstance(v["terms"][0], list):
        # a polynomial value {t, terms: [[wire, re, im, e], ...]}: change a coefficient, a phase, drop a term
        T = v["terms"]
        for i in (len(T) - 1, 0):
            t = T[i]
            out.append(dict(v, terms=T[:i] + [[t[0], t[1] + 1] + t[2:]] + T[i + 1:]))
            out.append(dict(v, terms=T[:i] + [[t[0][:-1] + [(t[0][-1] + 1) % 4]] + t[1:]] + T[i + 1:]))
        out.append(dict(v, terms=T[:-1]))
    if isinstance(v, dict):
        pref = ("fwd", "back", "post", "out", "ret", "outs", "vals", "val", "seq", "bwd")
        for k in sorted(v, key=lambda k: (pref.index(k) if k in pref else 99, k not in RESULT_FIELDS, k)):
            if k in ("ins", "kind", "obs", "pre", "m", "g", "a", "b", "prog", "qs"):
                continue
            for c in candidates(v[k], 3) if isinstance(v[k], (list, dict)) else [corrupt(v[k])[1]]:
                if c != v[k]:
                    out.append(dict(v, **{k: c}))
    elif isinstance(v, list) and v and isinstance(v[-1], (dict, list)):
        for i in (len(v) - 1, 0):
            for c in candidates(v[i], 5):
                out.append(v[:i] + [c] + v[i + 1:])
    for first in (False, True):
        ok, nv = corrupt(v, first)
        if ok and nv != v:
            out.append(nv)
    if isinstance(v, list) and 0 < len(v) <= 8 and all(isinstance(x, int) and not isinstance(x, bool) for x in v):
        for i in range(len(v)):                      # short numeric vectors: every position (a dyadic is [numerator, exponent])
            out.append(v[:i] + [corrupt(v[i])[1]] + v[i + 1:])
            if BIG[0]:
                out.append(v[:i] + [0] + v[i + 1:])
    if isinstance(v, int) and not isinstance(v, bool) and BIG[0]:
        out.append(0)
    uniq = []
    for c in out:
        if c not in uniq:
            uniq.append(c)
    return uniq[:limit]


def main(ids):
    from harness import core
    bad = 0
    for pid in ids:
        wd = tempfile.mkdtemp(prefix="binding_", dir="/tmp")
        os.environ["VERIF_WORK"] = wd
        import importlib
        for m in list(sys.modules):
            if m.startswith("harness"):
                del sys.modules[m]
        from harness import core, tlc
        mod = importlib.import_module("harness.props." + pid.lower())
        prop_cls = mod.PROP
        os.system("cd %s && VERIF_WORK=%s ./check %s --tier quick > %s/out.txt 2> %s/err.txt" % (HERE, wd, pid, wd, wd))
        tdir = os.path.join(wd, pid)
        files = sorted(f for f in os.listdir(tdir) if f.startswith("trace_"))
        seen = {}
        for f in files:
            for line in open(os.path.join(tdir, f)):
                r = json.loads(line)
                key = (r.get("op"), r.get("pkg"))
                ret = r.get("ret")
                if isinstance(ret, dict) and ret.get("terms") == []:
                    continue                         # (an empty result has nothing to corrupt)
                if "refused" in r or any(r.get(f) == [] for f in ("ret", "vals", "outs", "val")):
                    continue                         # (a documented refusal / an empty answer has nothing to corrupt)
                if "exc" not in r and r.get("op") != "refusal" and seen.get((key, "n"), 0) < 40:
                    seen[key] = r                    # (the 40th record of each kind: the first ones are degenerate inputs)
                    seen[(key, "n")] = seen.get((key, "n"), 0) + 1
        seen = {k: v for k, v in seen.items() if isinstance(v, dict)}
        print("== %s: %d operation kinds recorded" % (pid, len(seen)))
        for (op, pkg), rec in sorted(seen.items(), key=str):
            fields = [f for f in RESULT_FIELDS if f in rec] + (["m"] if op == "randmap" else [])
            BIG[0] = op in STAT_OPS
            if not fields:
                print("   %-14s %-6s (no result field to corrupt)" % (op, pkg))
                continue
            # the untouched record must be accepted; then up to ten corruptions (different result fields, first / last
            # number) are tried until one is rejected -- a corruption can be a semantic no-op (the exponent of a zero
            # dyadic) or touch a field that another property judges (C10 does not read forward images)
            p0 = os.path.join(wd, "one_orig.ndjson")
            open(p0, "w").write(json.dumps(rec) + "\n")
            rej0 = core.judge(prop_cls.trace_module, prop_cls.trace_cfg, [p0], "binding_" + pid)
            res = [sorted({c for _fi, _li, c in rej0 if not c.startswith(("Drift_", "KF_"))}), []]
            drift = [sorted({c for _fi, _li, c in rej0 if c.startswith("Drift_")}), []]
            tried, field = 0, None
            for f in fields:
                for nv in candidates(rec[f]):
                    if tried >= 14:
                        continue
                    tried += 1
                    p1 = os.path.join(wd, "one_corrupt.ndjson")
                    open(p1, "w").write(json.dumps(dict(rec, **{f: nv})) + "\n")
                    rej = core.judge(prop_cls.trace_module, prop_cls.trace_cfg, [p1], "binding_" + pid)
                    r1 = sorted({c for _fi, _li, c in rej if not c.startswith(("Drift_", "KF_"))})
                    d1 = sorted({c for _fi, _li, c in rej if c.startswith("Drift_")})
                    if r1 or (d1 and not drift[0]):
                        res[1], drift[1], field = r1, d1, f
                        break
                if field:
                    break
            field = field or fields[0]
            if res[1]:
                verdict = "REJECTED by " + ",".join(res[1]) + ("" if tried == 1 else "  (corruption no. %d)" % tried)
            elif drift[1] and not drift[0]:
                verdict = "reported as model drift by " + ",".join(drift[1]) + " (an operation no property covers)"
            else:
                verdict = "ACCEPTED (!) after %d corruptions" % tried
                bad += 1
            if res[0]:
                verdict += "   [untouched record rejected too: %s]" % ",".join(res[0])
            print("   %-14s %-6s field %-8s %s" % (op, pkg, field, verdict))
        shutil.rmtree(wd, ignore_errors=True)
    return 1 if bad else 0


if __name__ == "__main__":
    sys.exit(main(sys.argv[1:] or ["C01"]))
