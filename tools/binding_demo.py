#!/venv/bin/python
"""Demonstration of the binding between recorded traces and the TLA+ trace specifications (DESIGN 2.8).

usage: tools/binding_demo.py <ID> [<ID> ...]

For every operation kind that the quick run of a check records, one recorded observation is taken, ONE number in
one of its result fields is changed (a letter, a phase, an outcome bit, a rank, a value), and TLC is asked to judge
the corrupted record alone: it must reject it (a clause that is not a Drift_* / KF_* clause).  The untouched record
must be accepted.  Prints a table; exit 1 if some corrupted record is accepted."""
import json
import os
import shutil
import sys
import tempfile

HERE = os.path.dirname(os.path.dirname(os.path.abspath(__file__)))
sys.path.insert(0, HERE)
RESULT_FIELDS = ("ret", "outs", "post", "vals", "val", "fwd", "imgs", "toks", "rets", "mat", "out", "prob", "heff", "samples",
                 "py", "after", "copy", "again", "a1", "text", "back", "bwd", "l", "entries", "probes", "steps", "cnt", "collisions",
                 "terms", "bits", "lines", "support", "chi2m", "c0", "differ", "wpost", "wfwd", "mid", "acq", "ipow", "w", "L")


def corrupt(v):
    """change the first number found (depth first); returns (changed?, value)"""
    if isinstance(v, bool):
        return True, (not v)
    if isinstance(v, int):
        if v == -1:
            return True, 1              # (+1 / -1 outcome records)
        return True, (v + 1) % 4 if 0 <= v <= 3 else v + 1
    if isinstance(v, str):
        return (True, v + "x") if v else (False, v)
    if isinstance(v, list):
        for i in range(len(v) - 1, -1, -1):
            ok, nv = corrupt(v[i])
            if ok:
                return True, v[:i] + [nv] + v[i + 1:]
        return False, v
    if isinstance(v, dict):
        for k in sorted(v, key=lambda k: (k not in ("post", "out", "ret", "outs", "fwd"), k)):
            ok, nv = corrupt(v[k])
            if ok:
                d = dict(v)
                d[k] = nv
                return True, d
        return False, v
    return False, v


def main(ids):
    from harness import core
    bad = 0
    for pid in ids:
        wd = tempfile.mkdtemp(prefix="binding_", dir="/tmp")
        os.environ["VERIF_WORK"] = wd
        import importlib
        for m in list(sys.modules):
            if m.startswith("harness"):
                del sys.modules[m]
        from harness import core, tlc
        mod = importlib.import_module("harness.props." + pid.lower())
        prop_cls = mod.PROP
        os.system("cd %s && VERIF_WORK=%s ./check %s --tier quick > %s/out.txt 2> %s/err.txt" % (HERE, wd, pid, wd, wd))
        tdir = os.path.join(wd, pid)
        files = sorted(f for f in os.listdir(tdir) if f.startswith("trace_"))
        seen = {}
        for f in files:
            for line in open(os.path.join(tdir, f)):
                r = json.loads(line)
                key = (r.get("op"), r.get("pkg"))
                if key not in seen and "exc" not in r and r.get("op") != "refusal":
                    seen[key] = r
        print("== %s: %d operation kinds recorded" % (pid, len(seen)))
        for (op, pkg), rec in sorted(seen.items(), key=str):
            field = next((f for f in RESULT_FIELDS if f in rec), None)
            if field is None:
                print("   %-14s %-6s (no result field to corrupt)" % (op, pkg))
                continue
            ok, nv = corrupt(rec[field])
            if not ok:
                print("   %-14s %-6s (nothing numeric in %s)" % (op, pkg, field))
                continue
            res, drift = [], []
            for tag, r in (("orig", rec), ("corrupt", dict(rec, **{field: nv}))):
                p = os.path.join(wd, "one_%s.ndjson" % tag)
                open(p, "w").write(json.dumps(r) + "\n")
                rej = core.judge(prop_cls.trace_module, prop_cls.trace_cfg, [p], "binding_" + pid)
                res.append(sorted({c for _fi, _li, c in rej if not c.startswith(("Drift_", "KF_"))}))
                drift.append(sorted({c for _fi, _li, c in rej if c.startswith("Drift_")}))
            if res[1]:
                verdict = "REJECTED by " + ",".join(res[1])
            elif drift[1] and not drift[0]:
                verdict = "reported as model drift by " + ",".join(drift[1]) + " (an operation no property covers)"
            else:
                verdict = "ACCEPTED (!)"
                bad += 1
            if res[0]:
                verdict += "   [untouched record rejected too: %s]" % ",".join(res[0])
            print("   %-14s %-6s field %-8s %s" % (op, pkg, field, verdict))
        shutil.rmtree(wd, ignore_errors=True)
    return 1 if bad else 0


if __name__ == "__main__":
    sys.exit(main(sys.argv[1:] or ["C01"]))
