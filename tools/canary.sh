#!/bin/sh
# usage: tools/canary.sh <ID> <file relative to repo> <sed expression> [tier]
# copies the two packages to a scratch dir, applies the edit, runs the check against the copy, cleans up.
ID=$1; F=$2; SED=$3; TIER=${4:-quick}
D=$(mktemp -d /tmp/canary.XXXXXX)
cp -r /repo/pyclifford /repo/torchclifford "$D"/
sed -i "$SED" "$D/$F"
if cmp -s "$D/$F" "/repo/$F"; then echo "canary: edit did not change $F"; rm -rf "$D"; exit 3; fi
VERIF_REPO=$D VERIF_WORK=$D/work /verif/check "$ID" --tier "$TIER" > "$D/out.txt" 2> "$D/err.txt"; rc=$?
grep -c '^VIOLATION' "$D/out.txt" | sed 's/^/violations: /'
grep '^VIOLATION' "$D/out.txt" | sed 's/replay=[^ ]* //' | sort | uniq -c | sort -rn | head -5
tail -2 "$D/err.txt"
echo "rc=$rc"
rm -rf "$D"
