#!/bin/sh
# usage: tools/seed_sweep.sh "1 2 3"  -- quick tier of every check under several VERIF_SEED values (false-alarm hunt)
cd "$(dirname "$0")/.."
for s in $1; do
  echo "== VERIF_SEED=$s"
  VERIF_SEED=$s VERIF_WORK=/tmp/sweep_$s tools/run_all_into.sh quick 2 /tmp/sweep_$s
done
