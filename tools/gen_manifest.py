#!/usr/bin/env python3
"""Regenerate MANIFEST.json from the table below (single source of truth for the check list)."""
import json, os, subprocess
HERE = os.path.dirname(os.path.dirname(os.path.abspath(__file__)))

CHECKS = {
 "C01": dict(
    text="TLC proves the letter algebra (Mul/Anti) against explicit Gaussian-integer matrices for every operator pair (N<=2 quick, N<=3 thorough), associativity, squares and that the bit kernels refine it; every edge of the Pauli-group Cayley graph (N<=3) plus TLC-simulated product chains (N=4..8) is replayed into Pauli.__matmul__/acq/ipow/acq_mat/batch_dot of both packages and every recorded result is judged by TLC against the specification.",
    note="Trusted: TLC, the 4-entry bits<->letters projection in harness/backend.py, JSON plumbing. Exhaustive for N<=3 on the code; N>3 sampled.",
    design="4/C01", technique="TLA+ Cayley-graph model (TLC exhaustive) + matrix grounding ASSUMEs + replay of every TLC edge into the code, trace validated by TLC"),
}

def main():
    props = [json.loads(l) for l in open(os.path.join(HERE, "properties.jsonl"))]
    checks, na = [], []
    for p in props:
        pid = p["id"]
        if pid in CHECKS:
            c = CHECKS[pid]
            checks.append({
                "property_id": pid,
                "quick_cmd": "./check %s --tier quick" % pid,
                "thorough_cmd": "./check %s --tier thorough" % pid,
                "evidence_file": "/verif/evidence/%s.json" % pid,
                "replay_cmd_template": "./check %s --replay {path}" % pid,
                "engine": "tlc-conformance",
                "level_claimed": {"category": "model_checking", "text": c["text"], "design_ref": "DESIGN.md " + c["design"]},
                "level_note": c["note"],
                "technique": c["technique"],
            })
        else:
            na.append({"property_id": pid, "reason": "check not built yet in this round (planned, see DESIGN.md section 4/%s); not a limit of the technique" % pid})
    hooks_commits = []
    man = {
        "version": 1,
        "setup_cmd": "./setup.sh",
        "hooks": {"guard": "HONGYEHU_PYCLIFFORD_VERIF", "enable": "no source hooks are needed: the library is sequential and exposes its whole abstract state; recording wraps public calls from outside (DESIGN.md 2.3)",
                  "baseline_off_cmd": "cd /repo && /venv/bin/python -m pytest -ra -q -p no:cacheprovider --timeout=900 --continue-on-collection-errors",
                  "source_commits": hooks_commits, "add_only": True},
        "engines": [{"name": "tlc-conformance", "path": "/verif/check", "serves_properties": sorted(CHECKS),
                     "kind_free_text": "explicit TLA+ specification (spec/*.tla) model-checked by TLC; TLC-generated behaviours replayed into pyclifford/torchclifford; recorded NDJSON traces judged by TLC trace specifications"}],
        "checks": checks,
        "not_applicable": na,
        "notes": "All checks: ./check <ID> --tier quick|thorough; env VERIF_SEED, VERIF_TIER, VERIF_REPO (alternative tree for mutation canaries). Exit 2 = machinery failure.",
    }
    json.dump(man, open(os.path.join(HERE, "MANIFEST.json"), "w"), indent=1)
    print("MANIFEST.json: %d checks, %d not_applicable" % (len(checks), len(na)))

if __name__ == "__main__":
    main()
