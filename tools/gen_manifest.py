#!/usr/bin/env python3
"""Regenerate MANIFEST.json from the table below (single source of truth for the check list)."""
import json, os, subprocess
HERE = os.path.dirname(os.path.dirname(os.path.abspath(__file__)))

CHECKS = {
 "C01": dict(
    text="TLC proves the letter algebra (Mul/Anti) against explicit Gaussian-integer matrices for every operator pair (N<=2 quick, N<=3 thorough), associativity, squares and that the bit kernels refine it; every edge of the Pauli-group Cayley graph (N<=3) plus TLC-simulated product chains (N=4..8) is replayed into Pauli.__matmul__/acq/ipow/acq_mat/batch_dot of both packages and every recorded result is judged by TLC against the specification.",
    note="Trusted: TLC, the 4-entry bits<->letters projection in harness/backend.py, JSON plumbing. Exhaustive for N<=3 on the code; N>3 sampled.",
    design="4/C01", technique="TLA+ Cayley-graph model (TLC exhaustive) + matrix grounding ASSUMEs + replay of every TLC edge into the code, trace validated by TLC"),
 "C02": dict(
    text="TLC grounds Rot(G,P) as exact conjugation ((1-iG)P(1+iG) = 2 Rot) in Gaussian-integer matrices and proves inverse/order-4/homomorphism theorems over the whole N<=2 group; every generator x every operator (all object kinds, masks on N=3) and every edge of the TLC Clifford-group walk is replayed into rotate_by/clifford_rotate/clifford_rotation_map of both packages; TLC judges every recorded result; TLC-simulated rotation sequences with appended inverse for N=3..5.",
    note="Trusted: TLC, bits<->letters projection, mask construction from qubit lists. Exhaustive N<=2 (+masked N=3); N=3..5 sampled.",
    design="4/C02", technique="TLA+ Clifford-group walk (TLC exhaustive, 11520 states) + matrix-grounded Rot + replay of TLC edges/behaviours, trace validated by TLC"),
 "C03": dict(
    text="TLC enumerates the whole Clifford group for N<=2 (24 / 11520 maps) as a walk by rotations and checks in every state that Apply is a phase-exact homomorphism fixing the listed generator images, preserves commutation and Hermiticity, and that the library's pauli_transform formula (transcribed) refines it; every reachable map x the whole Pauli group is replayed into transform_by / pauli_transform / embed / pauli_combine / ps0 (both packages), masks and embeddings on N=3, larger maps from TLC -simulate; TLC judges every record.",
    note="Quick subsamples the 11520 N=2 maps by VERIF_SEED (thorough: all). Trusted: TLC, projection, JSON plumbing.",
    design="4/C03", technique="TLA+ group walk with homomorphism invariants (TLC) + replay of every emitted map into the code, trace validated by TLC"),
 "C04": dict(
    text="The TLC walk carries the inverse map compositionally; invariants IsInverse / neutrality / associativity / anti-homomorphism hold in all 24 / 11520 states and on all 345600 edges; inverse() on every map and compose() along every walk edge (thorough; sampled in quick), arbitrary pairs/triples, identity_map, z2inv refusal of singular matrices are replayed into both packages, with operands snapshotted before/after and result freshness observed; TLC judges every record.",
    note="Trusted: TLC, projection; freshness uses numpy.shares_memory / data_ptr from outside.",
    design="4/C04", technique="TLA+ group walk carrying (m, m^-1) (TLC exhaustive) + replay of states/edges into compose/inverse, trace validated by TLC"),
 "C05": dict(
    text="TableauOK/DensityOK are evaluated by TLC on every tableau the library hands back: one-step closure over the complete valid tableau space for N<=2 (48 / 34560 tableaux in thorough; VERIF_SEED sample in quick) x every public state-changing call (rotations, masked rotations, map transforms, named gates, measurements, post-selections, copy, set_r), with the post-state also required to denote the group the semantics prescribes; TLC-simulated histories (MC_TabWalk, N=2..5) are replayed on one live object, steering coins to the outcome TLC chose. The abstract semantics is grounded in density matrices (Tr rho = 1, rho^2 = 2^-r rho) by MC_StabSem.",
    note="Closure claim only in thorough. Standby/destabilizer phases are not constrained (never read into active rows).",
    design="4/C05", technique="TLA+ signed-group semantics grounded in matrices (TLC) + one-step closure of the real code over all valid tableaux + replay of TLC-simulated histories, trace validated by TLC"),
 "C06": dict(
    text="SemMeasure (Born rule + projection on signed stabilizer groups) is grounded by TLC in density matrices for all 91 N=2 states x 32 observables x 2 outcomes; the real measure() is run on every tableau (N<=2 complete in thorough) x every signed observable, commuting lists, state arguments, under enumerated coin schedules until every outcome of non-zero probability is seen; TLC checks outcome possible, log2prob, post-state = projection, rank, repeatability, and that exactly the possible outcome vectors occur.",
    note="Coins are steered by seeding numba's generator from outside (no hooks). Quick samples 1500 N=2 tableaux.",
    design="4/C06", technique="TLA+ measurement semantics grounded in matrices (TLC) + exhaustive replay over tableaux x observables x coin branches, trace validated by TLC"),
 "C07": dict(
    text="Expect / Overlap / Prob set formulas are grounded by TLC against Tr(rho P), Tr(rho sigma) (all 91x91 pairs) and rho[b,b] with sum 1; expect() on lists, Paulis, monomials, polynomials with phases i/-i and dyadic Gaussian coefficients, expect(state) for pairs of states of every rank, get_prob for all bit strings, and the torch kernels are recorded on the N<=2 tableau space and N=3,4 walks; TLC judges values and that receiver/argument are bitwise unchanged.",
    note="Mixed-receiver expect(state) is an explicit refusal (NotImplementedError) and accepted as such.",
    design="4/C07", technique="TLA+ trace formulas grounded in matrices (TLC) + replay over the tableau space, trace validated by TLC"),
 "C08": dict(
    text="Entropy(S,A) = |A| - log2|S_A| is grounded by TLC against explicit partial traces (flat spectrum) for all 91 N=2 states, with region/complement symmetry and invariance under local rotations; entropy() is recorded for every tableau (N<=2) and TLC-simulated N=3..5 tableaux of every rank x all 2^N regions in three input forms (both packages); TLC judges every value.",
    note="N<=2 entropies are 0/1; non-trivial mixed cases come from the N=3..5 samples.",
    design="4/C08", technique="TLA+ entropy formula grounded in partial traces (TLC) + replay over tableaux x regions, trace validated by TLC"),
 "C11": dict(
    text="The textbook tables of H,S,X,Y,Z,CNOT (both orientations) are written in TLA+ and grounded by TLC in explicit matrices (H'=X+Z, S=diag(1,i), CNOT 0/1); the 24 valid one-qubit maps form a group. Every named gate, every placement in registers N<=4 (through the gate, a Circuit and a CliffordCircuit), all 24 C(k) with their placements, and the documented error cases are recorded from the code and judged by TLC. Finite and exhaustive.",
    note="Complete for the finite tables; placements up to N=4.",
    design="4/C11", technique="TLA+ gate tables grounded in matrices (TLC ASSUMEs) + exhaustive recording of the library's tables/placements, trace validated by TLC"),
 "C12": dict(
    text="to_state/to_map round trips on every valid map (N<=2, all rank arguments) are compared at representation level and against 'apply the map to |0..0>'; constructors (zero, one, GHZ, mixed, random bit/product/Clifford) N<=5 against the TLA+ constants grounded in matrices; dense to_qutip exports entry-wise against the sum of group-element matrices; stabilizer_state() on every ordered signed sub-list of stabilizer halves in four input formats, anticommuting lists must raise ValueError. Both packages; TLC judges every record.",
    note="Dense exports are rounded to integers within 1e-5 after scaling by 2^N (float rounding is outside the model).",
    design="4/C12", technique="TLA+ constructor/duality semantics (TLC) + replay over all maps and stabilizer lists, trace validated by TLC"),
}

def main():
    props = [json.loads(l) for l in open(os.path.join(HERE, "properties.jsonl"))]
    checks, na = [], []
    for p in props:
        pid = p["id"]
        if pid in CHECKS:
            c = CHECKS[pid]
            checks.append({
                "property_id": pid,
                "quick_cmd": "./check %s --tier quick" % pid,
                "thorough_cmd": "./check %s --tier thorough" % pid,
                "evidence_file": "/verif/evidence/%s.json" % pid,
                "replay_cmd_template": "./check %s --replay {path}" % pid,
                "engine": "tlc-conformance",
                "level_claimed": {"category": "model_checking", "text": c["text"], "design_ref": "DESIGN.md " + c["design"]},
                "level_note": c["note"],
                "technique": c["technique"],
            })
        else:
            na.append({"property_id": pid, "reason": "check not built yet in this round (planned, see DESIGN.md section 4/%s); not a limit of the technique" % pid})
    hooks_commits = []
    man = {
        "version": 1,
        "setup_cmd": "./setup.sh",
        "hooks": {"guard": "HONGYEHU_PYCLIFFORD_VERIF", "enable": "no source hooks are needed: the library is sequential and exposes its whole abstract state; recording wraps public calls from outside (DESIGN.md 2.3)",
                  "baseline_off_cmd": "cd /repo && /venv/bin/python -m pytest -ra -q -p no:cacheprovider --timeout=900 --continue-on-collection-errors",
                  "source_commits": hooks_commits, "add_only": True},
        "engines": [{"name": "tlc-conformance", "path": "/verif/check", "serves_properties": sorted(CHECKS),
                     "kind_free_text": "explicit TLA+ specification (spec/*.tla) model-checked by TLC; TLC-generated behaviours replayed into pyclifford/torchclifford; recorded NDJSON traces judged by TLC trace specifications"}],
        "checks": checks,
        "not_applicable": na,
        "notes": "All checks: ./check <ID> --tier quick|thorough; env VERIF_SEED, VERIF_TIER, VERIF_REPO (alternative tree for mutation canaries). Exit 2 = machinery failure.",
    }
    json.dump(man, open(os.path.join(HERE, "MANIFEST.json"), "w"), indent=1)
    print("MANIFEST.json: %d checks, %d not_applicable" % (len(checks), len(na)))

if __name__ == "__main__":
    main()
