#!/usr/bin/env python3
"""Regenerate MANIFEST.json from the table below (single source of truth for the check list)."""
import json, os, subprocess
HERE = os.path.dirname(os.path.dirname(os.path.abspath(__file__)))

CHECKS = {
 "C01": dict(
    text="TLC proves the letter algebra (Mul/Anti) against explicit Gaussian-integer matrices for every operator pair (N<=2 quick, N<=3 thorough), associativity, squares and that the bit kernels refine it; every edge of the Pauli-group Cayley graph (N<=3) plus TLC-simulated product chains (N=4..8) is replayed into Pauli.__matmul__/acq/ipow/acq_mat/batch_dot of both packages and every recorded result is judged by TLC against the specification. Also: products on live operands (re-used after in-place rotation), calls recorded from the repository's own tests (thorough). One register across the 64-bit word boundary (63..130 qubits). Same-object squares, element types of user arrays (lenient), large batched tables.",
    note="Trusted: TLC, the 4-entry bits<->letters projection in harness/backend.py, JSON plumbing. Exhaustive for N<=3 on the code; N>3 sampled.",
    design="4/C01", technique="TLA+ Cayley-graph model (TLC exhaustive) + matrix grounding ASSUMEs + replay of every TLC edge into the code, trace validated by TLC"),
 "C02": dict(
    text="TLC grounds Rot(G,P) as exact conjugation ((1-iG)P(1+iG) = 2 Rot) in Gaussian-integer matrices and proves inverse/order-4/homomorphism theorems over the whole N<=2 group; every generator x every operator (all object kinds, masks on N=3) and every edge of the TLC Clifford-group walk is replayed into rotate_by/clifford_rotate/clifford_rotation_map of both packages; TLC judges every recorded result; TLC-simulated rotation sequences with appended inverse for N=3..5. Also: a 40-qubit register with >1000 operators, operands in other memory layouts (reversed/strided views, column-major arrays, maps returned by inverse()). Registers of 64..70 qubits incl. masks on the high qubits. Generators that are elements of the rotated list, element types, empty / singleton lists, 520-qubit rotation maps.",
    note="Trusted: TLC, bits<->letters projection, mask construction from qubit lists. Exhaustive N<=2 (+masked N=3); N=3..5 sampled.",
    design="4/C02", technique="TLA+ Clifford-group walk (TLC exhaustive, 11520 states) + matrix-grounded Rot + replay of TLC edges/behaviours, trace validated by TLC"),
 "C03": dict(
    text="TLC enumerates the whole Clifford group for N<=2 (24 / 11520 maps) as a walk by rotations and checks in every state that Apply is a phase-exact homomorphism fixing the listed generator images, preserves commutation and Hermiticity, and that the library's pauli_transform formula (transcribed) refines it; every reachable map x the whole Pauli group is replayed into transform_by / pauli_transform / embed / pauli_combine / ps0 (both packages), masks and embeddings on N=3, larger maps from TLC -simulate; TLC judges every record. Also: 40-qubit registers, operands and maps in other memory layouts, map pools for N=3..5 from TLC. An entangling 66-qubit map from a TLC walk (MC_RotSim N=66). Same-object map and operand, element types, empty / singleton lists.",
    note="Quick subsamples the 11520 N=2 maps by VERIF_SEED (thorough: all). Trusted: TLC, projection, JSON plumbing.",
    design="4/C03", technique="TLA+ group walk with homomorphism invariants (TLC) + replay of every emitted map into the code, trace validated by TLC"),
 "C04": dict(
    text="The TLC walk carries the inverse map compositionally; invariants IsInverse / neutrality / associativity / anti-homomorphism hold in all 24 / 11520 states and on all 345600 edges; inverse() on every map and compose() along every walk edge (thorough; sampled in quick), arbitrary pairs/triples, identity_map, z2inv refusal of singular matrices are replayed into both packages, with operands snapshotted before/after and result freshness observed; TLC judges every record. Also: maps on 9, 12 and 16 qubits from TLC walks; each result is changed in place by its owner and the operation repeated (no memo may leak). A 66-qubit map and its inverse from a TLC walk (132-column GF(2) elimination). Self-composition of one object.",
    note="Trusted: TLC, projection; freshness uses numpy.shares_memory / data_ptr from outside.",
    design="4/C04", technique="TLA+ group walk carrying (m, m^-1) (TLC exhaustive) + replay of states/edges into compose/inverse, trace validated by TLC"),
 "C05": dict(
    text="TableauOK/DensityOK are evaluated by TLC on every tableau the library hands back: one-step closure over the complete valid tableau space for N<=2 (48 / 34560 tableaux in thorough; VERIF_SEED sample in quick) x every public state-changing call (rotations, masked rotations, map transforms, named gates, measurements, post-selections, copy, set_r), with the post-state also required to denote the group the semantics prescribes; TLC-simulated histories (MC_TabWalk, N=2..5) are replayed on one live object, steering coins to the outcome TLC chose. The abstract semantics is grounded in density matrices (Tr rho = 1, rho^2 = 2^-r rho) by MC_StabSem. Also: gate programs through circuits in every compile mode on N=3 tableaux, and relabelled onto qubits around index 64 of 64..70-qubit registers (tableau invariant evaluated by TLC); L2: the transcribed measure/project algorithms of Tableau.tla are compared bit for bit (model drift).",
    note="Closure claim only in thorough. Every row of every tableau handed back must keep a Hermitian phase (StepsHermOK): standby rows and destabilizers become map images through to_map() / diagonalize().",
    design="4/C05", technique="TLA+ signed-group semantics grounded in matrices (TLC) + one-step closure of the real code over all valid tableaux + replay of TLC-simulated histories, trace validated by TLC"),
 "C06": dict(
    text="SemMeasure (Born rule + projection on signed stabilizer groups) is grounded by TLC in density matrices for all 91 N=2 states x 32 observables x 2 outcomes; the real measure() is run on every tableau (N<=2 complete in thorough) x every signed observable, commuting lists, state arguments, under enumerated coin schedules until every outcome of non-zero probability is seen; TLC checks outcome possible, log2prob, post-state = projection, rank, repeatability, and that exactly the possible outcome vectors occur. Also: observable lists made of arbitrary group elements (dependent entries) on mixed states; coin schedules 40 x branches. Entangled blocks on the last qubits of 66..71-qubit mixed registers (observables on both sides of qubit 64). State arguments drawn (not strided) over all ranks and sign patterns.",
    note="Coins are steered by seeding numba's generator from outside (no hooks). Quick samples 1500 N=2 tableaux.",
    design="4/C06", technique="TLA+ measurement semantics grounded in matrices (TLC) + exhaustive replay over tableaux x observables x coin branches, trace validated by TLC"),
 "C07": dict(
    text="Expect / Overlap / Prob set formulas are grounded by TLC against Tr(rho P), Tr(rho sigma) (all 91x91 pairs) and rho[b,b] with sum 1; expect() on lists, Paulis, monomials, polynomials with phases i/-i and dyadic Gaussian coefficients, expect(state) for pairs of states of every rank, get_prob for all bit strings, and the torch kernels are recorded on the N<=2 tableau space and N=3,4 walks; TLC judges values and that receiver/argument are bitwise unchanged. Also: a 36-qubit rank-33 product state; calls from the refusal table of API.tla (model drift). The rank-(N-3) product state also on 70 qubits. Element types of observable arrays, coefficients down to 2^-22, get_prob records from the repository's tests.",
    note="Mixed-receiver expect(state) is an explicit refusal (NotImplementedError) and accepted as such.",
    design="4/C07", technique="TLA+ trace formulas grounded in matrices (TLC) + replay over the tableau space, trace validated by TLC"),
 "C08": dict(
    text="Entropy(S,A) = |A| - log2|S_A| is grounded by TLC against explicit partial traces (flat spectrum) for all 91 N=2 states, with region/complement symmetry and invariance under local rotations; entropy() is recorded for every tableau (N<=2) and TLC-simulated N=3..5 tableaux of every rank x all 2^N regions in three input forms (both packages); TLC judges every value. Also: regions named by unsorted lists, numpy integer arrays, ranges and lists naming a qubit twice. Entangled blocks inside 66/70-qubit registers: mixed padding judged directly, pure padding through the padding lemma MC_Pad (TLC, all groups on <=2 qubits x paddings <=2). torch.bool masks; GHZ states in rotated bases on 129..140 qubits (lemma MC_Pad!GHZEntropy); L2 ImplEntropy = Entropy on the complete N<=2 tableau space (MC_Tableau).",
    note="N<=2 entropies are 0/1; non-trivial mixed cases come from the N=3..5 samples.",
    design="4/C08", technique="TLA+ entropy formula grounded in partial traces (TLC) + replay over tableaux x regions, trace validated by TLC"),
 "C11": dict(
    text="The textbook tables of H,S,X,Y,Z,CNOT (both orientations) are written in TLA+ and grounded by TLC in explicit matrices (H'=X+Z, S=diag(1,i), CNOT 0/1); the 24 valid one-qubit maps form a group. Every named gate, every placement in registers N<=4 (through the gate, a Circuit and a CliffordCircuit), all 24 C(k) with their placements, and the documented error cases are recorded from the code and judged by TLC. Finite and exhaustive. Placements around qubit 64 of a 66-qubit register. int8 / uint8 / int16 labels on 96..201-qubit registers.",
    note="Complete for the finite tables; placements up to N=4.",
    design="4/C11", technique="TLA+ gate tables grounded in matrices (TLC ASSUMEs) + exhaustive recording of the library's tables/placements, trace validated by TLC"),
 "C12": dict(
    text="to_state/to_map round trips on every valid map (N<=2, all rank arguments) are compared at representation level and against 'apply the map to |0..0>'; constructors (zero, one, GHZ, mixed, random bit/product/Clifford) N<=5 against the TLA+ constants grounded in matrices; dense to_qutip exports entry-wise against the sum of group-element matrices; stabilizer_state() on every ordered signed sub-list of stabilizer halves in four input formats, anticommuting lists must raise ValueError. Both packages; TLC judges every record. Also: the same map object converted again after in-place changes (live maps); invalid lists built from X/Z/Y images; L2: the transcribed stabilizer_project / stabilizer_state (MC_Project refinement theorem, Drift_FromStab). stabilizer_state() on lists placed in 66/70-qubit registers. Generator-expression arguments; to_state / stabilizer_state calls recorded from the repository's tests and notebooks (thorough).",
    note="Dense exports are rounded to integers within 1e-5 after scaling by 2^N (float rounding is outside the model).",
    design="4/C12", technique="TLA+ constructor/duality semantics (TLC) + replay over all maps and stabilizer lists, trace validated by TLC"),
 "C09": dict(
    text="TLC enumerates every gate program of at most 3 (quick) / 4 (thorough) items over a 14-gate alphabet on N=3 (named, generator, forward-map, backward-map-only, two-map, local and global gates), packs each with a transcription of take() and proves the packing legal, layer order = program order as a map, and locality; the driver rebuilds each program in both circuit classes x {uncompiled, layers compiled, circuit compiled} x {original, copy, composed halves} (both packages), records the layer layout and the forward / gate-by-gate images of map, phased-list and signed-state probes; TLC judges layout legality (any legal packing accepted) and forward = sequential application. Also: TLC-simulated programs of 10 gates on N=4..6 (MC_CircuitSim), programs relabelled onto qubits around index 64, generators re-assigned after use, compose() independence probe, refusal table (model drift). Empty programs, explicit-label rotation gates, 9..12-qubit registers, dense 24-qubit single-map gates.",
    note="Programs longer than 4 are not enumerated. Quick rotates 3 of the 12 configurations per program.",
    design="4/C09", technique="TLA+ circuit-program model with transcribed take() (TLC exhaustive) + replay of every program/configuration, layouts and probe images validated by TLC"),
 "C10": dict(
    text="Same programs and configurations as C09: TLC proves on the model that backward inverts forward (both orders) and compiled inverse = inverse of compiled forward; on the code, forward-then-backward and backward-then-forward must return map, list (all four phases) and signed rank-1 state probes bitwise, and backward alone must equal the inverse gates in reverse order; judged by TLC. Also: the MC_CircuitSim programs, wide registers and re-assigned generators of C09. Compose argument run backward after the composed circuit was extended.",
    note="As C09.",
    design="4/C10", technique="TLA+ circuit-program model (TLC) + replay with round-trip probes, trace validated by TLC"),
 "C13": dict(
    text="Same-named kernels of the two utils.py and the shared class methods are called with identical well-formed inputs (valid maps and tableaux emitted by TLC for N<=2, TLC-simulated N=3,4; Pauli lists; masks; binary matrices; identical coin outcomes for measurement); normalised return values are paired per call and TLC requires equality (an exception on one side only is a disagreement). Every family is additionally judged against the semantics in both packages by the other checks (C01-C04, C07-C10, C12, C15, C16, C18, C20 run with the torch backend). Lenient pairs for from-the-end labels; wide polynomial pairs.",
    note="Relational property: the TLA+ part is the pairing invariant plus the per-package trace specifications. Functions existing in one package only are outside the property. Three open findings (torch measure, torch pivot order, pyclifford trace phase).",
    design="4/C13", technique="TLA+ trace specification over paired records (TLC) + both packages validated against the same specifications"),
 "C14": dict(
    text="Programs interleaving gates and measurement layers (MC_Circuit alphabet incl. Mz[1], Mz[2,3], length <=3 quick / <=4 thorough) are run through Circuit on zero/GHZ/mixed/TLC-simulated inputs under several coin schedules; TLC replays the recorded outcomes through the sequential semantics (gates by Forward, Mz by SemMeasureList): outcomes possible, +1/-1 in order, log2prob accumulated, state and rank as direct measurements, layout legal (no gate crosses a measurement). backward with the circuit's own record, the same record, every single-bit corruption and wrong lengths: adjoint trajectory or ValueError exactly when impossible. Direct MeasureLayer calls; postselect on every pure N<=2 tableau x signed Pauli x outcome (probability, projected state, unchanged when impossible, refusal on mixed). Also: a second forward run on the same Circuit followed by backward without a record. Measurement layers on qubits >= 64. Circuits compiled while unitary and extended afterwards.",
    note="Backward/post-selection only on pure states (documented refusal otherwise).",
    design="4/C14", technique="TLA+ trajectory semantics over the circuit-program model (TLC) + replay with recorded outcome records, trace validated by TLC"),
 "C15": dict(
    text="PauliPoly (sums, products, scalars, traces, equality of denotations) is grounded by TLC in 4x4 Gaussian-integer matrices; a typed stack machine enumerates every well-typed expression with at most two binary operators plus unary wrappers over a 13-element operand pool (Pauli, monomial, polynomial with repeated strings and all phases, list, numbers); each arithmetic step is executed with the real operators and judged by TLC on exact denotations (+, -, @, number*, /number, neg, reduce incl. explicit tolerances, trace, copy, rotation linearity, dense export), operands must be unchanged; both packages. Also: scalars next to the units 1, -1, i, -i (c = u(1 +- 2^-k), k = 14..23, exact at 2^-24) and histories on live operands. 13..66-qubit polynomials with long common prefixes; constants and casts; arithmetic on stabilizer states.",
    note="Open finding D5 (pyclifford trace ignores the phase) is suppressed by a TLC-evaluated classifier (KF_TracePhase). Float rounding outside the model.",
    design="4/C15", technique="TLA+ polynomial algebra grounded in matrices + typed expression machine (TLC exhaustive) + replay, every step validated by TLC"),
 "C16": dict(
    text="Every sampled map/state (random_clifford/pauli map and state, random_bit_state, brick-wall/on-site/global random circuits forward, backward and povm) is judged valid by TLC (ValidMap / TableauOK) for N<=6 (8); distribution: over fixed seed blocks all 24 signed one-qubit maps, all 720 N=2 symplectic classes (sample space enumerated by the TLC group walk), 16 sign patterns, 6^N Pauli-map tables must be reached with chi-square within 8 sigma, sign bits and measurement coins fair within 8 sigma, map-less gates resample per call and refuse compile; both packages. Validity of random maps / highly mixed random states on 64..66 qubits. Exact per-row letter marginals for N=3,4 (20000 / 8000 samples), per-qubit marginals up to 66 qubits.",
    note="Frequencies are statistical (fixed seeds derived from VERIF_SEED, so reproducible); supports are exact. Tally arithmetic in the harness, acceptance region in TraceC16.tla.",
    design="4/C16", technique="TLA+ validity predicates and acceptance region (TLC) over sampled objects and fixed-seed tallies"),
 "C17": dict(
    text="Heap.tla models object slots, buffers and modifies-sets (query / in place on receiver / in place on argument / copy / poke) and TLC enumerates all histories of length 5 over three slots; for every object kind (Pauli, list, monomial, polynomial, map, state, gate, layer, both circuit classes) every public method is called with whole-heap snapshots before/after (receiver, argument, bystanders bitwise), copies are compared, tested for shared buffers and poked on either side, and sampled TLC histories are replayed; TLC judges the frame conditions; both packages. Also: PureOK -- every deterministic query is asked again after its first answer was overwritten by the caller, and after every in-place method, and must answer like a freshly built object (no memo tables, no stale caches); 3-qubit query snapshots. AfterOK: after a call with an object argument both parties are changed through public in-place methods and the other is re-observed (also from an empty receiving circuit); deepcopy / pickle copies (lenient); array arguments in the snapshot.",
    note="Lazily derived maps / recorded results of gates, layers, circuits are masked when unset before the call. compose() legitimately shares gate objects.",
    design="4/C17", technique="TLA+ heap/modifies-set model (TLC exhaustive histories) + whole-heap snapshot traces validated by TLC"),
 "C18": dict(
    text="Postconditions only: for every non-identity string x sign x target qubit x causal flag (N<=3, N=4 thorough/sampled) TLC applies the recorded rotation gates of diagonalize() itself and checks +-Z on the target, causality (only qubits >= i0 touched, earlier generators fixed, restricted operator diagonalised); diagonalize(state) must decode to |0..0> and re-encode; pauli_diagonalize2 on all partner pairs of valid maps; front/condense/onsite kernels; SBRG: heff only I/Z strings, and for commuting Hamiltonians the circuit maps H exactly onto heff (exact dyadic coefficients); both packages where the API exists. Also: commuting Hamiltonians made of arbitrary group elements incl. the identity with every term leading (found D14), non-default tol / max_rate and couplings below the pruning tolerance. diagonalize() of 66/70-qubit operators. Dense 24-qubit diagonalize(state).",
    note="SBRG exactness only claimed for commuting terms, as the property states.",
    design="4/C18", technique="TLA+ postconditions over recorded circuits (Circuit!Forward evaluated by TLC) on exhaustive small inputs"),
 "C19": dict(
    text="sample(): every sampled operator must be an element of the signed stabilizer group (TLC, StabSem!Grp) for all N<=2 tableaux and TLC-simulated N=3..5, uniformity by fixed-seed tallies (all elements reached, chi-square within 8 sigma); density_matrix: every group element exactly once with weight 2^-N up to N-r=10; binary_repr for all widths <=10; ClassicalShadow snapshots through a recording proxy circuit: valid, non-zero overlap, stabilised up to sign by the back-evolved basis, equal to the base measured in that basis for some outcomes, base untouched. Also: sample() on 63..130-qubit product states (N-r across 64): signs and per-generator frequencies judged by TLC. Tallies over many calls of 1-3 samples.",
    note="pyclifford only (the anchors are pyclifford files).",
    design="4/C19", technique="TLA+ group-membership / measurement semantics (TLC) over recorded samples, expansions and snapshots"),
 "C20": dict(
    text="PauliSyntax.tla defines Parse / Print / Tokenize over token sequences; TLC proves for all operators N<=3 that every description (all prefix forms, code arrays with the phase code first, last or in the middle, repr and token formats) parses to the operator and that the token polynomial of pauli_tokenize equals the table; every description of every operator is replayed into pauli() as str / character list / list / tuple / array / dict, repr and tokenize outputs are compared exactly and re-parsed, lists: construction, L/N/len/weight, selection by int / slice / mask / index array, negation and multiplication by 1,-1,i,-i; both packages. 63..130-letter strings. Plain-Python masks; printing of maps / states / lists as model drift.",
    note="Exhaustive for N<=3 descriptions; list/index expressions are seeded samples.",
    design="4/C20", technique="TLA+ syntax specification with round-trip theorems (TLC) + exhaustive replay of descriptions, trace validated by TLC"),
}

def main():
    props = [json.loads(l) for l in open(os.path.join(HERE, "properties.jsonl"))]
    checks, na = [], []
    for p in props:
        pid = p["id"]
        if pid in CHECKS:
            c = CHECKS[pid]
            checks.append({
                "property_id": pid,
                "quick_cmd": "./check %s --tier quick" % pid,
                "thorough_cmd": "./check %s --tier thorough" % pid,
                "evidence_file": "/verif/evidence/%s.json" % pid,
                "replay_cmd_template": "./check %s --replay {path}" % pid,
                "engine": "tlc-conformance",
                "level_claimed": {"category": "model_checking", "text": c["text"], "design_ref": "DESIGN.md " + c["design"]},
                "level_note": c["note"],
                "technique": c["technique"],
            })
        else:
            na.append({"property_id": pid, "reason": "check not built yet in this round (planned, see DESIGN.md section 4/%s); not a limit of the technique" % pid})
    hooks_commits = []
    man = {
        "version": 1,
        "setup_cmd": "./setup.sh",
        "hooks": {"guard": "HONGYEHU_PYCLIFFORD_VERIF", "enable": "no source hooks are needed: the library is sequential and exposes its whole abstract state; recording wraps public calls from outside (DESIGN.md 2.3)",
                  "baseline_off_cmd": "cd /repo && /venv/bin/python -m pytest -ra -q -p no:cacheprovider --timeout=900 --continue-on-collection-errors",
                  "source_commits": hooks_commits, "add_only": True},
        "engines": [{"name": "tlc-conformance", "path": "/verif/check", "serves_properties": sorted(CHECKS),
                     "kind_free_text": "explicit TLA+ specification (spec/*.tla) model-checked by TLC; TLC-generated behaviours replayed into pyclifford/torchclifford; recorded NDJSON traces judged by TLC trace specifications"}],
        "checks": checks,
        "not_applicable": na,
        "notes": "All checks: ./check <ID> --tier quick|thorough; env VERIF_SEED, VERIF_TIER, VERIF_REPO (alternative tree for mutation canaries). Exit 2 = machinery failure.",
    }
    json.dump(man, open(os.path.join(HERE, "MANIFEST.json"), "w"), indent=1)
    print("MANIFEST.json: %d checks, %d not_applicable" % (len(checks), len(na)))

if __name__ == "__main__":
    main()
