#!/bin/sh
# Run the repository's baseline suite (guard off: there are no hooks) and compare with BASELINE.json stable_pass.
OUT=${1:-/tmp/baseline.xml}
cd /repo && /venv/bin/python -m pytest -ra -q -p no:cacheprovider --timeout=900 --continue-on-collection-errors --junitxml=$OUT > ${OUT%.xml}.log 2>&1
/venv/bin/python - "$OUT" <<'PY'
import json, sys, xml.etree.ElementTree as ET
base = json.load(open('/root/.vp/BASELINE.json'))
root = ET.parse(sys.argv[1]).getroot()
res = {}
for tc in root.iter('testcase'):
    name = tc.get('classname') + '::' + tc.get('name')
    bad = any(ch.tag in ('failure', 'error') for ch in tc)
    res[name] = not bad
missing = [t for t in base['stable_pass'] if not res.get(t, False)]
print('stable_pass: %d/%d pass' % (len(base['stable_pass']) - len(missing), len(base['stable_pass'])))
for m in missing:
    print('  FAIL', m)
extra = [t for t, ok in res.items() if ok and t not in base['stable_pass']]
print('additionally passing now:', extra)
sys.exit(1 if missing else 0)
PY
