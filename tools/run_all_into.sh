#!/bin/sh
# like run_all.sh but with outputs under a scratch directory (VERIF_WORK must be exported by the caller)
TIER=${1:-quick}; PAR=${2:-2}; OUT=$3
cd "$(dirname "$0")/.."; mkdir -p $OUT/logs
ls harness/props | grep '^c[0-9]*\.py$' | sed 's/\.py//' | tr a-z A-Z | xargs -P $PAR -I{} sh -c 'S=$(date +%s); ./check {} --tier '"$TIER"' > '"$OUT"'/logs/{}.out 2> '"$OUT"'/logs/{}.err; rc=$?; E=$(date +%s); echo "{} rc=$rc $((E-S))s viol=$(grep -c "^VIOLATION" '"$OUT"'/logs/{}.out) known=$(grep -c "^KNOWN-FINDING" '"$OUT"'/logs/{}.out)"' | sort
