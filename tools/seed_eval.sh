#!/bin/sh
# usage: tools/seed_eval.sh <PROP_ID> <dir with patch.diff + demo.py> [tier] [extra check ids...]
# Confirms a seeded change: applies it to a scratch copy, runs the demonstration with/without it, the
# repository's baseline suite with it, and the property's check against the copy.  Prints a summary.
ID=$1; SRC=$2; TIER=${3:-quick}
shift; shift; [ $# -gt 0 ] && shift
EXTRA="$@"
D=$(mktemp -d /tmp/seedeval.XXXXXX)
mkdir -p $D/repo; cp -r /repo/pyclifford /repo/torchclifford $D/repo/
( cd $D/repo && patch -p1 -s < $SRC/patch.diff ) || { echo "patch failed"; rm -rf $D; exit 3; }
echo "== demo on original tree"; ( cd /repo && timeout 900 /venv/bin/python $SRC/demo.py > $D/demo_orig.txt 2>&1; echo "exit=$?" )
echo "== demo on changed tree";  ( cd $D/repo && timeout 900 /venv/bin/python $SRC/demo.py > $D/demo_mut.txt 2>&1; echo "exit=$?"; tail -3 $D/demo_mut.txt )
echo "== baseline suite on changed tree"
( cd $D/repo && timeout 1500 /venv/bin/python -m pytest -q -p no:cacheprovider --timeout=900 pyclifford/tests torchclifford/tests 2>&1 | tail -8 | grep -i "passed\|failed" )
for C in $ID $EXTRA; do
  echo "== ./check $C --tier $TIER against the changed tree"
  VERIF_REPO=$D/repo VERIF_WORK=$D/work /verif/check $C --tier $TIER > $D/out_$C.txt 2> $D/err_$C.txt; echo "rc=$?"
  grep '^VIOLATION' $D/out_$C.txt | sed 's/replay=[^ ]* //' | sort | uniq -c | sort -rn | head -6
  tail -1 $D/err_$C.txt
done
rm -rf $D
