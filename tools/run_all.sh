#!/bin/sh
# usage: tools/run_all.sh [quick|thorough] [parallelism]   -- runs every check, prints a summary table
TIER=${1:-quick}; PAR=${2:-3}
cd "$(dirname "$0")/.."; mkdir -p work/logs
ls harness/props | grep '^c[0-9]*\.py$' | sed 's/\.py//' | tr a-z A-Z | xargs -P $PAR -I{} sh -c 'S=$(date +%s); ./check {} --tier '"$TIER"' > work/logs/{}.out 2> work/logs/{}.err; rc=$?; E=$(date +%s); echo "{} rc=$rc $((E-S))s viol=$(grep -c "^VIOLATION" work/logs/{}.out) known=$(grep -c "^KNOWN-FINDING" work/logs/{}.out)"' | sort
