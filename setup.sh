#!/bin/sh
# Offline setup: nothing to build.  TLC, java and /venv are pre-installed; the packages are
# imported straight from /repo's working tree (numba / TorchScript compile at run time).
set -e
cd "$(dirname "$0")"
mkdir -p work evidence replay
command -v java >/dev/null
test -f /opt/veriftools/tla/tla2tools.jar
/venv/bin/python -c "import numpy, numba, torch, qutip" 2>/dev/null
echo "setup ok"
