INIT Init
NEXT Next
INVARIANT NoCrash
INVARIANT WF
INVARIANT MulOK
INVARIANT AcqOK
INVARIANT IpowOK
INVARIANT AcqMatOK
INVARIANT BatchOK
INVARIANT ChainOK
