-------------------------------- MODULE MC_C11 --------------------------------
(***************************************************************************)
(* C11: the textbook conjugation tables of Clifford.tla are grounded in    *)
(* explicit matrices (square-root-free forms):                             *)
(*    H' = X + Z  (= sqrt2 H):  H' P H' = 2 img(P)                          *)
(*    S  = diag(1, i):          S P S^dagger = img(P)                       *)
(*    X, Y, Z:                  G P G = img(P)                              *)
(*    CNOT (0/1 matrix):        C P C = img(P)                              *)
(* and the 24 valid one-qubit maps form a group (closed, inverses).        *)
(***************************************************************************)
EXTENDS Clifford, GaussMat, TLC

MX == Mat(P1(1, 0))   MY == Mat(P1(2, 0))   MZ == Mat(P1(3, 0))
MS == <<<<GOne, GZero>>, <<GZero, <<0, 1>>>>>>                     \* as function 0..1 below
F2(r0, r1) == [r \in 0..1 |-> IF r = 0 THEN [c \in 0..1 |-> r0[c + 1]] ELSE [c \in 0..1 |-> r1[c + 1]]]
SMat == F2(<<GOne, GZero>>, <<GZero, <<0, 1>>>>)
HMat == MAdd(MX, MZ)
Gen1 == {P1(1, 0), P1(3, 0), P1(2, 0), P1(0, 0)}

ASSUME HGround == \A P \in Gen1 : MatMul(MatMul(HMat, Mat(P)), HMat) = MScale(2, Mat(Apply(GateH, P)))
ASSUME SGround == \A P \in Gen1 : MatMul(MatMul(SMat, Mat(P)), MAdj(SMat)) = Mat(Apply(GateS, P))
ASSUME XGround == \A P \in Gen1 : MatMul(MatMul(MX, Mat(P)), MX) = Mat(Apply(GateX, P))
ASSUME YGround == \A P \in Gen1 : MatMul(MatMul(MY, Mat(P)), MY) = Mat(Apply(GateY, P))
ASSUME ZGround == \A P \in Gen1 : MatMul(MatMul(MZ, Mat(P)), MZ) = Mat(Apply(GateZ, P))

\* CNOT, control = qubit 1 (most significant bit), target = qubit 2:  |c,t> -> |c, t xor c>
CMat == [r \in 0..3 |-> [c \in 0..3 |->
          IF (r \div 2 = c \div 2) /\ (r % 2 = ((c % 2) + (c \div 2)) % 2) THEN GOne ELSE GZero]]
\* control = qubit 2, target = qubit 1
CMatRev == [r \in 0..3 |-> [c \in 0..3 |->
          IF (r % 2 = c % 2) /\ (r \div 2 = ((c \div 2) + (c % 2)) % 2) THEN GOne ELSE GZero]]
ASSUME CNOTGround == \A P \in Strings(2) :
    /\ MatMul(MatMul(CMat, Mat(P)), CMat) = Mat(Apply(GateCNOT, P))
    /\ MatMul(MatMul(CMatRev, Mat(P)), CMatRev) = Mat(Apply(GateCNOTrev, P))
ASSUME TablesValid == \A g \in {GateH, GateS, GateX, GateY, GateZ, GateCNOT, GateCNOTrev} : ValidMap(g)

AllValid1 == {mm \in [1..2 -> HermSet(1)] : ValidMap(mm)}
ASSUME C1Group ==
    /\ Cardinality(AllValid1) = 24
    /\ \A a, b \in AllValid1 : Compose(a, b) \in AllValid1
    /\ \A a \in AllValid1 : \E b \in AllValid1 : IsInverse(a, b)

VARIABLE x
Init == x = 0
Next == UNCHANGED x
=============================================================================
