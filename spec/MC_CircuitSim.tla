---------------------------- MODULE MC_CircuitSim ----------------------------
(* C09 / C10 / C14, simulation mode: long random gate programs on N = 4..6     *)
(* qubits (named gates and rotation gates on every qubit / pair / some         *)
(* triples), packed by the transcribed take(); the legality invariant and the  *)
(* layout-order denotation are checked along every behaviour and every step    *)
(* is emitted, so that the driver can rebuild the program in the real circuit  *)
(* classes.  One successor per step.                                           *)
EXTENDS Circuit, TLC
CONSTANTS N, WITHMZ
VARIABLES prog, layers
Rnd(set, x) == RandomElement({a \in set : x = x})
NamedItem(g, qs) == [k |-> "map", qs |-> qs,
                     m |-> CASE g = "H" -> GateH [] g = "S" -> GateS [] g = "X" -> GateX [] g = "Y" -> GateY
                             [] g = "Z" -> GateZ [] g = "CNOT" -> GateCNOT [] OTHER -> GateCNOTrev,
                     mi |-> CASE g = "S" -> <<P1(2, 2), P1(3, 0)>>
                              [] g = "H" -> GateH [] g = "X" -> GateX [] g = "Y" -> GateY [] g = "Z" -> GateZ
                              [] g = "CNOT" -> GateCNOT [] OTHER -> GateCNOTrev]
RandItem(x) ==
    LET c == Rnd(1..(IF WITHMZ THEN 7 ELSE 6), x) IN
    CASE c = 1 -> LET q == Rnd(1..N, x) IN <<"named:" \o Rnd({"H", "S", "X", "Z"}, x), q>>
      [] c \in {2, 3} -> <<"named:" \o Rnd({"CNOT", "CNOTrev"}, x), 0>>
      [] c = 4 -> <<"gen1", 0>>
      [] c \in {5, 6} -> <<"gen2", 0>>
      [] OTHER -> <<"mz", 0>>
Pair(x) == LET a == Rnd(1..N - 1, x) IN <<a, Rnd(a + 1..N, x)>>
Build(x) ==
    LET c == Rnd(1..(IF WITHMZ THEN 8 ELSE 7), x) IN
    CASE c = 1 -> LET g == Rnd({"H", "S", "X", "Z"}, x) IN <<"named:" \o g, NamedItem(g, <<Rnd(1..N, x)>>)>>
      [] c \in {2, 3, 4} -> LET g == Rnd({"CNOT", "CNOTrev"}, x) IN <<"named:" \o g, NamedItem(g, Pair(x))>>
      [] c = 5 -> <<"gen", [k |-> "gen", qs |-> <<Rnd(1..N, x)>>, g |-> P1(Rnd(1..3, x), Rnd({0, 2}, x))]>>
      [] c \in {6, 7} -> <<"gen", [k |-> "gen", qs |-> Pair(x), g |-> P2(Rnd(1..3, x), Rnd(1..3, x), Rnd({0, 2}, x))]>>
      [] OTHER -> <<"mz", [k |-> "mz", qs |-> (IF Rnd(0..1, x) = 0 THEN <<Rnd(1..N, x)>> ELSE Pair(x))]>>
Init == prog = <<>> /\ layers = <<<<>>>>
Items == [j \in 1..Len(prog) |-> prog[j][2]]
SimNext == \E a \in {Build(prog)} :
    /\ prog' = Append(prog, a)
    /\ layers' = (IF a[2].k = "mz" THEN TakeMz(layers, Len(prog) + 1) ELSE TakeGate(layers, Items, a[2], Len(prog) + 1))
Legal == LayoutLegal(NonEmpty(layers), Items)
Unitary == \A j \in 1..Len(prog) : prog[j][2].k # "mz"
DenLayout == Unitary => \A q \in 1..N :
    /\ Forward(LayoutProg(NonEmpty(layers), Items), XOp(q, N)) = Forward(Items, XOp(q, N))
    /\ Forward(LayoutProg(NonEmpty(layers), Items), ZOp(q, N)) = Forward(Items, ZOp(q, N))
EncItem(a) == LET it == a[2] IN
    IF it.k = "gen" THEN <<a[1], it.qs, Enc(it.g)>>
    ELSE IF it.k = "map" THEN <<a[1], it.qs, EncM(it.m), EncM(it.mi)>>
    ELSE <<a[1], it.qs>>
EmitSim == PrintT(ToString(<<"G", TLCGet("level"), EncItem(prog'[Len(prog')]), NonEmpty(layers')>>))
=============================================================================
