CONSTANTS N = 1
 GROUND = FALSE
 HOMFULL = FALSE
 EMITEDGES = FALSE
INIT Init
NEXT Next
VIEW View
INVARIANT Valid
INVARIANT EmitState
