CONSTANTS N = 2
 EMITPAIRS = TRUE
 OVL = FALSE
INIT Init
NEXT Next
VIEW View
INVARIANT GroupOK
INVARIANT ReachableIsAll
INVARIANT BornGround
INVARIANT Repeatable
