INIT Init
NEXT Next
INVARIANT NoCrash16
INVARIANT MapOK
INVARIANT PauliMapOK
INVARIANT StateOK
INVARIANT DistOK
INVARIANT SlackOK
INVARIANT DistValidOK
INVARIANT EntangleOK
INVARIANT BirthdayOK
INVARIANT FairOK
INVARIANT ResampleOK
INVARIANT Drift_RandomPair
INVARIANT Drift_RandomClifford
INVARIANT MarginalOK
INVARIANT MarginalExactOK
INVARIANT BigBirthdayOK
INVARIANT RowMarginalOK
