CONSTANTS MAXLEN = 3
 WITHMZ = TRUE
INIT Init
NEXT Next
INVARIANT Legal
INVARIANT DenLayout
INVARIANT RoundTrip
INVARIANT Locality
INVARIANT EmitState
