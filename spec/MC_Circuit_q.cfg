CONSTANTS MAXLEN = 3
 WITHMZ = TRUE
INIT Init
NEXT Next
INVARIANT Legal
INVARIANT DenLayout
INVARIANT PackIsFold
INVARIANT ComposeLegalQ
INVARIANT RoundTrip
INVARIANT Locality
INVARIANT EmitState
