INIT Init
NEXT Next
INVARIANT NoCrashK
INVARIANT ScenarioOK
INVARIANT LayoutOK
INVARIANT ForwardOK
INVARIANT SeqOK
INVARIANT RankOK
INVARIANT OtherOK
INVARIANT Drift_Refusal
INVARIANT Drift_Packing
INVARIANT Drift_CircuitRepr
