CONSTANTS N = 3
INIT Init
NEXT Next
