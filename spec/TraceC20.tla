------------------------------- MODULE TraceC20 -------------------------------
(* Trace specification for C20: parsing, printing, tokenizing, indexing.     *)
EXTENDS PauliSyntax, TraceBase

Done == ~Has("exc")
\* pauli(description)
\* (ret2: the same description parsed again after the caller changed the first result in place -- a description
\* denotes the same operator every time it is read)
ParseOK == (Rec.op = "parse" /\ Done) => /\ Rec.ret = Enc(Parse(Rec.tokens))
                                          /\ Has("ret2") => Rec.ret2 = Enc(Parse(Rec.tokens))
\* pauli(dict, N): letters at the listed (1-based) positions, identity elsewhere
ParseDictOK == (Rec.op = "parsedict" /\ Done) =>
    /\ Len(Rec.ret) = Rec.n + 1 /\ Rec.ret[Rec.n + 1] = 0
    /\ \A q \in 1..Rec.n : Rec.ret[q] = (IF \E a \in 1..Len(Rec.items) : Rec.items[a][1] = q
                                        THEN Rec.items[CHOOSE a \in 1..Len(Rec.items) : Rec.items[a][1] = q][2] ELSE 0)
\* repr: exactly the documented format, and it parses back (the library re-parses its own output too)
ReprOK == (Rec.op = "repr" /\ Done) =>
    /\ Rec.text = Print(Dec(Rec.p))
    /\ Has("back") => Rec.back = Rec.p
TokenizeOK == (Rec.op = "tokenize" /\ Done) =>
    /\ Rec.toks = Tokenize(Dec(Rec.p))
    /\ Has("back") => Rec.back = Rec.p
\* tokens of a whole list (one row per operator), also of a list that was changed in place since the last time
TokenizeListOK == (Rec.op = "tokenizelist" /\ Done) =>
    /\ Len(Rec.toks) = Len(Rec.ops)
    /\ \A j \in 1..Len(Rec.ops) : Rec.toks[j] = Tokenize(Dec(Rec.ops[j]))
\* lists: construction, size queries, selection, phase arithmetic
ListOK == (Rec.op = "list" /\ Done) =>
    /\ Rec.ret = [j \in 1..Len(Rec.descs) |-> Enc(Parse(Rec.descs[j]))]
    /\ Rec.L = Len(Rec.descs) /\ Rec.len = Len(Rec.descs)
    /\ Rec.N = Len(Rec.ret[1]) - 1
    /\ \A j \in 1..Len(Rec.ret) : Rec.weights[j] = Weight(Dec(Rec.ret[j]))
SelectOK == (Rec.op = "select" /\ Done) =>
    CASE Rec.kind = "int" -> Rec.ret = Rec.ops[Rec.idx]
      [] Rec.kind = "array" -> Rec.ret = SelectIdx(Rec.ops, Rec.idx)
      [] Rec.kind = "mask" -> Rec.ret = SelectIdx(Rec.ops, MaskIdx(Rec.mask, 1))
      [] Rec.kind = "slice" -> Rec.ret = SelectIdx(Rec.ops, Rec.idx)          \* idx = the positions the slice denotes
      [] OTHER -> FALSE
\* negation and multiplication by 1, -1, i, -i: phase arithmetic (e = power of i)
ScaleOK == (Rec.op = "scale" /\ Done) =>
    Rec.ret = [j \in 1..Len(Rec.ops) |-> Enc(Ph(Dec(Rec.ops[j]), Rec.e))]
WeightOK == (Rec.op = "weight" /\ Done) => Rec.w = Weight(Dec(Rec.p)) /\ Rec.N = NQ(Dec(Rec.p))
\* printing a whole list: one operator per line, nothing elided (the property promises the round trip per operator; a
\* list printer that elides long lists, as the printer of Clifford maps does beyond 10 qubits, would not break it --
\* model drift, never a verdict)
Drift_ListRepr == (Rec.op = "listrepr" /\ Done) =>
    /\ Len(Rec.lines) = Len(Rec.ops)
    /\ \A j \in 1..Len(Rec.ops) : Rec.lines[j] = Print(Dec(Rec.ops[j]))
\* printing of Clifford maps (N <= 10: one line "X<i>-><image>" / "Z<i>-><image>" per generator, qubits counted from 0)
\* and of stabilizer states (the active stabilizers, one per line) -- model drift, never a verdict
Digit(d) == CASE d = 0 -> "0" [] d = 1 -> "1" [] d = 2 -> "2" [] d = 3 -> "3" [] d = 4 -> "4" [] d = 5 -> "5"
              [] d = 6 -> "6" [] d = 7 -> "7" [] d = 8 -> "8" [] OTHER -> "9"
Drift_MapRepr == (Rec.op = "maprepr" /\ Done) =>
    /\ Rec.head = "CliffordMap(" /\ Rec.tail = ")"
    /\ Len(Rec.lines) = Len(Rec.m)
    /\ \A j \in 1..Len(Rec.m) :
          /\ Rec.lines[j].pre = "  " \o (IF j % 2 = 1 THEN "X" ELSE "Z") \o Digit((j - 1) \div 2)
          /\ Rec.lines[j].toks = Print(Dec(Rec.m[j]))
Drift_StateRepr == (Rec.op = "staterepr" /\ Done) =>
    LET n == Len(Rec.pre.rows) \div 2  k == n - Rec.pre.r IN
    IF k = 0 THEN Rec.text = "StabilizerState()"
    ELSE /\ Rec.head = "StabilizerState(" /\ Rec.tail = ")"
         /\ Len(Rec.lines) = k
         /\ \A j \in 1..k : Rec.lines[j].pre = "  " /\ Rec.lines[j].toks = Print(Dec(Rec.pre.rows[Rec.pre.r + j]))
NoCrash20 == ~Has("exc")
=============================================================================
