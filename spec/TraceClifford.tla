---------------------------- MODULE TraceClifford ----------------------------
(* Trace specification for C02, C03, C04, C11 (and the map half of C12):    *)
(* rotations, map application, embedding, compose / inverse, named gates.   *)
(* Qubits are 1-based here; the harness shifts the library's 0-based ones.  *)
EXTENDS Clifford, TraceBase, FiniteSets

WFL(ws) == \A j \in 1..Len(ws) : WellFormed(ws[j], Len(ws[j]) - 1)
WF == /\ Has("ins") => WFL(Rec.ins)
      /\ Has("outs") => WFL(Rec.outs) /\ (Rec.op \in {"rot", "transform", "rotseq"} => Len(Rec.outs) = Len(Rec.ins))
      /\ Has("ret") /\ Rec.op \in {"rotmap", "inverse", "compose", "identity", "embed", "gate"} => WFL(Rec.ret)

\* ---- C02
RotOK == (Rec.op = "rot" /\ Has("outs")) =>
    LET G == Dec(Rec.g) IN
    /\ Len(Rec.outs) = Len(Rec.ins)
    /\ \A j \in 1..Len(Rec.ins) :
        Dec(Rec.outs[j]) = (IF Has("qs") THEN RotMasked(G, Rec.qs, Dec(Rec.ins[j])) ELSE Rot(G, Dec(Rec.ins[j])))
\* coefficients of polynomials / rank of states / generator object are not touched
RotFrameOK == (Rec.op = "rot" /\ Has("outs")) =>
    /\ Has("csok") => Rec.csok = TRUE
    /\ Has("r0") => Rec.r1 = Rec.r0
    /\ Has("g1") => Rec.g1 = Rec.g
\* (ret2, ret4: the same request again after the caller changed, in place, the table it was given / the table of a
\* compiled rotation gate; ret3: the compiled gate's table)
RotMapOK == (Rec.op = "rotmap" /\ Has("ret")) =>
    /\ DecM(Rec.ret) = RotMap(Dec(Rec.g))
    /\ \A f \in {"ret2", "ret3", "ret4"} : Has(f) => DecM(Rec[f]) = RotMap(Dec(Rec.g))
\* a sequence of rotations followed by the inverse sequence (rotations by -G in reverse order)
RECURSIVE RotSeq(_, _, _)
RotSeq(P, gens, j) == IF j > Len(gens) THEN P ELSE RotSeq(Rot(Dec(gens[j]), P), gens, j + 1)
RotSeqOK == (Rec.op = "rotseq" /\ Has("mid")) =>
    /\ \A j \in 1..Len(Rec.ins) : Dec(Rec.mid[j]) = RotSeq(Dec(Rec.ins[j]), Rec.gens, 1)
    /\ Rec.outs = Rec.ins

\* ---- C03
TransformOK == (Rec.op = "transform" /\ Has("outs")) =>
    LET mm == DecM(Rec.m) IN
    /\ Len(Rec.outs) = Len(Rec.ins)
    /\ \A j \in 1..Len(Rec.ins) :
        Dec(Rec.outs[j]) = (IF Has("qs") THEN ApplyMasked(mm, Rec.qs, Dec(Rec.ins[j])) ELSE Apply(mm, Dec(Rec.ins[j])))
TransformFrameOK == (Rec.op = "transform" /\ Has("outs")) =>
    /\ Has("csok") => Rec.csok = TRUE
    /\ Has("r0") => Rec.r1 = Rec.r0
    /\ Has("m1") => Rec.m1 = Rec.m
EmbedOK == (Rec.op = "embed" /\ Has("ret")) => DecM(Rec.ret) = EmbedMap(DecM(Rec.ms), Rec.qs, Rec.n)
\* the embedded map acts like the masked update (both are "the same map among identity wires")
EmbedActsOK == (Rec.op = "embed" /\ Has("ret") /\ Has("probe")) =>
    \A j \in 1..Len(Rec.probe) :
        Apply(DecM(Rec.ret), Dec(Rec.probe[j])) = ApplyMasked(DecM(Rec.ms), Rec.qs, Dec(Rec.probe[j]))
\* kernels
RECURSIVE SelProd(_, _, _, _)
SelProd(c, ops, j, n) == IF j = 0 THEN Id(n)
                         ELSE IF c[j] = 1 THEN Mul(SelProd(c, ops, j - 1, n), Dec(ops[j])) ELSE SelProd(c, ops, j - 1, n)
CombineOK == (Rec.op = "combine" /\ Has("outs")) =>
    \A i \in 1..Len(Rec.c) : Dec(Rec.outs[i]) = SelProd(Rec.c[i], Rec.ins, Len(Rec.ins), Rec.n)
Ps0OK == (Rec.op = "ps0" /\ Has("vals")) =>
    \A j \in 1..Len(Rec.ins) : Rec.vals[j] = Cardinality({i \in 1..Len(Rec.ins[j]) - 1 : Rec.ins[j][i] = 2}) % 4

\* ---- C04
InverseOK == (Rec.op = "inverse" /\ Has("ret")) => IsInverse(DecM(Rec.m), DecM(Rec.ret)) /\ ValidMap(DecM(Rec.ret))
ComposeOK == (Rec.op = "compose" /\ Has("ret")) => DecM(Rec.ret) = Compose(DecM(Rec.a), DecM(Rec.b))
\* compose / inverse return new maps and leave their operands unchanged
FrameOK == (Rec.op \in {"inverse", "compose"} /\ Has("ret")) =>
    /\ Has("m1") => Rec.m1 = Rec.m
    /\ Has("a1") => Rec.a1 = Rec.a /\ Rec.b1 = Rec.b
    /\ Has("fresh") => Rec.fresh = TRUE
IdentityOK == (Rec.op = "identity" /\ Has("ret")) => DecM(Rec.ret) = IdMap(Rec.n)
\* group laws evaluated on the code's own results
AssocOK == (Rec.op = "assoc" /\ Has("l")) =>
    /\ Rec.l = Rec.r
    /\ DecM(Rec.l) = Compose(Compose(DecM(Rec.a), DecM(Rec.b)), DecM(Rec.c))
AntiHomOK == (Rec.op = "antihom" /\ Has("l")) =>
    /\ Rec.l = Rec.r                                   \* (a;b)^-1 = b^-1 ; a^-1
    /\ IsInverse(Compose(DecM(Rec.a), DecM(Rec.b)), DecM(Rec.l))
SingularOK == Rec.op = "singular" => (Has("exc") /\ Rec.exc = "ValueError")
NoCrashC == (Rec.op # "singular" /\ Rec.op # "gate_err") => ~Has("exc")

\* ---- C11
GateTable(name) == CASE name = "H" -> GateH [] name = "S" -> GateS [] name = "X" -> GateX
                     [] name = "Y" -> GateY [] name = "Z" -> GateZ
                     [] name = "CNOT" -> GateCNOT [] name = "CNOTrev" -> GateCNOTrev
\* (ret2: the same constructor called again after the caller changed the first gate's table in place)
GateOK == (Rec.op = "gate" /\ Has("ret")) => /\ DecM(Rec.ret) = GateTable(Rec.name)
                                             /\ Has("ret2") => DecM(Rec.ret2) = GateTable(Rec.name)
\* action of the gate placed on qubits qs (ascending) of an n-qubit register, images of X_1,Z_1,..,X_n,Z_n
GateActionOK == (Rec.op = "gate_action" /\ Has("imgs")) =>
    DecM(Rec.imgs) = EmbedMap(GateTable(Rec.name), Rec.qs, Rec.n)
AllValid1 == {mm \in [1..2 -> HermSet(1)] : ValidMap(mm)}
CTableOK == (Rec.op = "ctable" /\ Has("maps")) =>
    LET T == {DecM(Rec.maps[k]) : k \in 1..Len(Rec.maps)} IN
    /\ Len(Rec.maps) = 24
    /\ \A k \in 1..24 : ValidMap(DecM(Rec.maps[k]))
    /\ Cardinality(T) = 24                             \* pairwise different
    /\ T = AllValid1                                   \* hence the whole one-qubit group
    /\ \A a, b \in T : Compose(a, b) \in T             \* closed under composition
    /\ \A a \in T : \E b \in T : IsInverse(a, b)       \* and inversion
    /\ Has("maps2") => Rec.maps2 = Rec.maps             \* the enumeration is a function of the index alone
GateErrOK == Rec.op = "gate_err" => (Has("exc") /\ Rec.exc = "ValueError")
=============================================================================
