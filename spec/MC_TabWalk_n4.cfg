CONSTANTS N = 4
INIT Init
NEXT SimNext
INVARIANT GroupOK
ACTION_CONSTRAINT EmitSim
