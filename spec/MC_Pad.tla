------------------------------- MODULE MC_Pad -------------------------------
(* Lemma that lifts the bounded entropy check to wide registers (C08):      *)
(* a state that is |0..0> (with arbitrary signs: any computational basis     *)
(* state) on m padding qubits and a k-qubit stabilizer state S on the rest   *)
(* has, for every region A, the entropy of S on the part of A inside the     *)
(* block.  Checked for every stabilizer group on k <= 2 qubits, m <= 2 and   *)
(* every sign pattern of the padding; the trace specification uses it for    *)
(* k <= 5 and m up to 65 (TraceStab!WideEntropyOK).                          *)
EXTENDS StabSem, TLC
CONSTANTS K, M
H == {P \in HermSet(K) : ~IsId(P)}
Groups == {{Id(K)}} \cup {Span(<<a>>, K) : a \in H} \cup
          {Span(<<a, b>>, K) : a \in H, b \in {c \in H : K >= 2}}
Good(S) == IsStabGroup(S, K)
\* padding first (qubits 1..M), block last (qubits M+1..M+K)
PadOp(zs, sg, g) == [s |-> zs \o g.s, k |-> (g.k + 2 * sg) % 4]
SignOf(zs, signs) == Cardinality({q \in 1..M : zs[q] = 3 /\ signs[q] = 1}) % 2
Pad(S, signs) == {PadOp(zs, SignOf(zs, signs), g) : zs \in [1..M -> {0, 3}], g \in S}
ASSUME PadEntropy == \A S \in {T \in Groups : Good(T)} : \A signs \in [1..M -> 0..1] : \A A \in SUBSET (1..M + K) :
    Entropy(Pad(S, signs), A) = Entropy(S, {q - M : q \in {a \in A : a > M}})
\* second lemma: the GHZ state has one bit of entropy in every proper non-empty region (checked here for K + M qubits;
\* used by TraceStab!GHZEntropyOK for locally rotated GHZ states on up to 140 qubits, whose entropies are the same by
\* the invariance of the entropy under Clifford operations acting inside or outside the region)
ASSUME GHZEntropy == LET n == K + M IN \A A \in SUBSET (1..n) :
    Entropy(GHZGroup(n), A) = (IF A = {} \/ A = 1..n THEN 0 ELSE 1)
VARIABLE x
Init == x = 0
Next == UNCHANGED x
=============================================================================
