--------------------------------- MODULE API ---------------------------------
(***************************************************************************)
(* The refusal table of the public API: for a call description c (a record *)
(* with field `api` and the arguments that matter) the class of exception  *)
(* the library raises, or "none" when the call is accepted.  Refusals are  *)
(* part of the system's behaviour but -- apart from those the listed       *)
(* properties state themselves (C11 invalid gate indices, C12 anticommuting*)
(* stabilizers, C14 impossible records / mixed post-selection), which are  *)
(* clauses of their own trace specifications -- they are not promised by   *)
(* any property: conformance to this table is reported as model drift      *)
(* (Drift_Refusal), never as a verdict.                                    *)
(* Qubits are 1-based here; `n` is the register size.                      *)
(***************************************************************************)
EXTENDS Naturals, Sequences

OutOfRange(qs, n) == \E j \in 1..Len(qs) : qs[j] > n
Refusal(c) ==
    CASE c.api \in {"CliffordCircuit.take", "CliffordCircuit.gate", "Circuit.take", "Circuit.gate", "Circuit.measure"} ->
             IF OutOfRange(c.qs, c.n) THEN "ValueError" ELSE "none"
      [] c.api = "CliffordCircuit.compose" -> IF c.n # c.m THEN "ValueError" ELSE "none"
      \* a gate without generator and maps is a random gate: it cannot be compiled (at any nesting level)
      [] c.api \in {"CliffordGate.compile", "CliffordLayer.compile", "CliffordCircuit.compile"} ->
             IF c.unspecified > 0 THEN "Exception" ELSE "none"
      [] c.api = "CliffordGate.set_generator" -> IF c.arg = "Pauli" THEN "none" ELSE "TypeError"
      [] c.api \in {"CliffordGate.set_forward_map", "CliffordGate.set_backward_map"} ->
             IF c.arg = "CliffordMap" THEN "none" ELSE "TypeError"
      [] c.api = "Circuit.povm" -> IF c.measures > 0 THEN "NotImplementedError" ELSE "none"
      [] c.api = "diagonalize" -> IF c.arg \in {"Pauli", "PauliMonomial", "StabilizerState"} THEN "none" ELSE "NotImplementedError"
      [] c.api = "pauli.dict" -> IF ~c.hasN THEN "ValueError" ELSE IF OutOfRange(c.qs, c.n) THEN "AssertionError" ELSE "none"
      [] c.api = "pauli.type" -> IF c.arg \in {"Pauli", "tuple", "list", "ndarray", "dict", "str"} THEN "none" ELSE "TypeError"
      [] c.api = "PauliList.scale" -> IF c.unit THEN "none" ELSE "NotImplementedError"
      [] c.api = "StabilizerState.get_prob" -> IF c.len # c.n THEN "ValueError" ELSE "none"
      [] c.api = "StabilizerState.entropy" -> IF OutOfRange(c.qs, c.n) THEN "AssertionError" ELSE "none"
      [] c.api = "StabilizerState.postselect" -> IF c.r > 0 THEN "ValueError" ELSE "none"
      \* an observable list on another number of qubits than the state: refused before the tableau is touched
      [] c.api = "StabilizerState.measure" -> IF c.m # c.n THEN "AssertionError" ELSE "none"
      [] OTHER -> "unlisted"
\* a refused call leaves the receiver as it was (recorded by the driver as a projection before / after)
RefusalClean(c) == (Refusal(c) # "none" /\ "same" \in DOMAIN c) => c.same
=============================================================================
