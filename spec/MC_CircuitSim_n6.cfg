CONSTANTS N = 6
 WITHMZ = FALSE
INIT Init
NEXT SimNext
INVARIANT Legal
INVARIANT DenLayout
ACTION_CONSTRAINT EmitSim
