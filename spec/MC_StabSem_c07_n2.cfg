CONSTANTS N = 2
 EMITPAIRS = FALSE
 OVL = TRUE
INIT Init
NEXT Next
VIEW View
INVARIANT GroupOK
INVARIANT ReachableIsAll
INVARIANT ExpectGround
INVARIANT ProbGround
