-------------------------------- MODULE MC_C01 --------------------------------
(***************************************************************************)
(* C01  Pauli multiplication is exact.                                     *)
(*  - ASSUMEs (evaluated by TLC over the whole finite group): the letter   *)
(*    table is the matrix product; Anti is matrix anticommutation;         *)
(*    associativity; squares; the bit kernels (ipow, acq, matmul) refine   *)
(*    the letter algebra.                                                  *)
(*  - PauliChain: the Cayley graph of the group under left and right       *)
(*    multiplication.  Every chain of products of any length is a path in  *)
(*    this graph; every edge is emitted once (Emit) and replayed into the  *)
(*    real code.                                                           *)
(***************************************************************************)
EXTENDS GaussMat, BinaryRep, TLC
CONSTANTS N, GROUND, ASSOC
VARIABLES acc, lbl

PS == PauliSet(N)

\* Grounding on strings (k = 0); MatPhase + PhaseLinear extend it to all phases.
ASSUME MatGround == GROUND =>
    \A P, Q \in Strings(N) :
        LET AB == MatMul(Mat(P), Mat(Q))  BA == MatMul(Mat(Q), Mat(P)) IN
        /\ AB = Mat(Mul(P, Q))
        /\ Anti(P, Q) <=> (AB = MNeg(BA))
        /\ (~Anti(P, Q)) <=> (AB = BA)
ASSUME MatPhase == GROUND =>
    \A P \in PS : Mat(P) = MGScale(IPow(P.k), Mat([P EXCEPT !.k = 0]))
ASSUME AntiPhaseFree ==
    \A P, Q \in PS : Anti(P, Q) = Anti([P EXCEPT !.k = 0], [Q EXCEPT !.k = 0])
ASSUME Assoc == ASSOC =>
    \A P, Q, R \in Strings(N) : Mul(Mul(P, Q), R) = Mul(P, Mul(Q, R))
ASSUME PhaseLinear ==
    \A P, Q \in Strings(N) : \A a, b \in 0..3 : Mul(Ph(P, a), Ph(Q, b)) = Ph(Mul(P, Q), a + b)
ASSUME Squares ==
    \A P \in PS : Mul(P, P) = Ph(Id(N), 2 * P.k)            \* (i^k s)^2 = (-1)^k
ASSUME IdNeutral ==
    \A P \in PS : Mul(P, Id(N)) = P /\ Mul(Id(N), P) = P
ASSUME AntiSym ==
    \A P, Q \in PS : Anti(P, Q) = Anti(Q, P) /\ (Anti(P, Q) <=> Mul(P, Q) = Neg(Mul(Q, P)))
\* L2 refines L1
ASSUME SigmaBij ==
    \A P \in PS : Sigma(BitsOf(P), P.k) = P
ASSUME KernelsRefine ==
    \A g1, g2 \in BitVecs(N) :
        /\ (AcqImpl(g1, g2) = 1) <=> Anti(Sigma(g1, 0), Sigma(g2, 0))
        /\ \A p1, p2 \in 0..3 :
             LET r == MatmulImpl(g1, p1, g2, p2) IN Sigma(r[1], r[2]) = Mul(Sigma(g1, p1), Sigma(g2, p2))

Init == acc = Id(N) /\ lbl = <<"init", Id(N)>>
MulRight(q) == acc' = Mul(acc, q) /\ lbl' = <<"R", q>>
MulLeft(q)  == acc' = Mul(q, acc) /\ lbl' = <<"L", q>>
Next == \E q \in PS : MulRight(q) \/ MulLeft(q)
Spec == Init /\ [][Next]_<<acc, lbl>>

TypeOK == acc \in PS                       \* the phase never leaves 0..3: no drift
View == acc
Emit == PrintT(ToString(<<"E", lbl'[1], Enc(acc), Enc(lbl'[2]), Enc(acc'), AntiBit(acc, lbl'[2])>>))
=============================================================================
