INIT Init
NEXT Next
INVARIANT NoCrash17
INVARIANT QueryOK
INVARIANT InPlaceOK
INVARIANT ArgMutOK
INVARIANT CopyFaithfulOK
INVARIANT CopyDisjointOK
INVARIANT HistOK
INVARIANT PureOK
INVARIANT AfterOK
INVARIANT FactoryOK
