------------------------------ MODULE MC_RotSim ------------------------------
(* C02 / C04, simulation mode: random walks in the N-qubit Clifford group    *)
(* by signed rotation generators (N beyond the exhaustive bound), carrying   *)
(* the inverse map.  One successor per step; every step is emitted.          *)
EXTENDS Clifford, TLC
CONSTANTS N
VARIABLES m, minv, lbl
Init == m = IdMap(N) /\ minv = IdMap(N) /\ lbl = Id(N)
RandG(x) == [s |-> [i \in 1..N |-> RandomElement({a \in Letters : x = x})], k |-> RandomElement({a \in {0, 2} : x = x})]
Step(G) == /\ m' = [j \in 1..2 * N |-> Rot(G, m[j])]
           /\ minv' = Compose(RotMap(Neg(G)), minv)
           /\ lbl' = G
SimNext == \E G \in {RandG(m)} : Step(G)
Valid == ValidMap(m) /\ ValidMap(minv)
InverseOK == IsInverse(m, minv)
\* the stabilizer group of to_state(m', 0): images of all Z-strings -- products of up to N generators with their
\* exact signs, used by the drivers as observables with determined outcomes / non-zero expectations
ZStrings == {[s |-> [i \in 1..N |-> IF i \in A THEN 3 ELSE 0], k |-> 0] : A \in SUBSET (1..N)}
RECURSIVE SetSeq(_)
SetSeq(T) == IF T = {} THEN <<>> ELSE LET x == CHOOSE x \in T : TRUE IN <<<<Enc(x), Enc(Apply(m', x))>>>> \o SetSeq(T \ {x})
EmitSim == PrintT(ToString(<<"S", TLCGet("level"), Enc(lbl'), EncM(m'), EncM(minv'), IF N <= 5 THEN SetSeq(ZStrings) ELSE <<>>,
    IF N <= 5 THEN [i \in 1..N |-> Enc(Apply(m', YOp(i, N)))] ELSE <<>>>>))
=============================================================================
