----------------------------- MODULE PauliSyntax -----------------------------
(***************************************************************************)
(* C20: the concrete syntaxes of Pauli operators.                          *)
(* A description is a sequence of tokens:                                  *)
(*   0..3  letters I X Y Z (characters or codes)                           *)
(*   4     '+' (or code 4)      5  '-' (or code 5)                          *)
(*   6     code 6 (= +i)        7  code 7 (= -i)                            *)
(*   8     the character 'i'    9  any other character (e.g. the blank     *)
(*                                  that repr prints before + and -)       *)
(* Parse reads the letters in order and folds the phase tokens;            *)
(* Print is the repr format (two-character phase prefix, then letters);    *)
(* Tokenize is the learning-token format (letters, then one phase token).  *)
(***************************************************************************)
EXTENDS PauliGroup

IsLetterTok(t) == t \in 0..3
RECURSIVE PhaseFold(_, _, _)
PhaseFold(toks, j, p) == IF j > Len(toks) THEN p
    ELSE PhaseFold(toks, j + 1, CASE toks[j] = 4 -> 0 [] toks[j] = 5 -> 2 [] toks[j] = 8 -> p + 1
                                   [] toks[j] = 6 -> 1 [] toks[j] = 7 -> 3 [] OTHER -> p)
Parse(toks) == [s |-> SelectSeq(toks, IsLetterTok), k |-> PhaseFold(toks, 1, 0) % 4]

Prefix(k) == CASE k = 0 -> <<9, 4>> [] k = 1 -> <<4, 8>> [] k = 2 -> <<9, 5>> [] OTHER -> <<5, 8>>   \* " +", "+i", " -", "-i"
Print(P) == Prefix(P.k) \o P.s
PhaseTok(k) == CASE k = 0 -> 4 [] k = 1 -> 6 [] k = 2 -> 5 [] OTHER -> 7
Tokenize(P) == Append(P.s, PhaseTok(P.k))

\* all accepted descriptions of P: string prefixes '', '+', '-', 'i', '-i', '+i'; code arrays with the
\* phase code first, last (tokenize) or in the middle
StrPrefixes(k) == CASE k = 0 -> {<<>>, <<4>>} [] k = 1 -> {<<8>>, <<4, 8>>} [] k = 2 -> {<<5>>} [] OTHER -> {<<5, 8>>}
Descriptions(P) ==
    LET n == NQ(P)  h == (n + 1) \div 2 IN
    {pre \o P.s : pre \in StrPrefixes(P.k)}
    \cup {Print(P), Tokenize(P), <<PhaseTok(P.k)>> \o P.s,
          SubSeq(P.s, 1, h) \o <<PhaseTok(P.k)>> \o SubSeq(P.s, h + 1, n)}

\* sequence semantics of list indexing
SelectIdx(ops, idx) == [j \in 1..Len(idx) |-> ops[idx[j]]]
RECURSIVE MaskIdx(_, _)
MaskIdx(mask, j) == IF j > Len(mask) THEN <<>> ELSE (IF mask[j] THEN <<j>> ELSE <<>>) \o MaskIdx(mask, j + 1)
=============================================================================
