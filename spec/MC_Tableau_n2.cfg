CONSTANTS N = 2
INIT Init
NEXT Next
VIEW View
INVARIANT Valid
INVARIANT ExpectRefines
INVARIANT ProjTraceRefines
INVARIANT PostselectRefines
INVARIANT EntropyRefines
PROPERTY RefMeasure
PROPERTY RefRotate
