CONSTANTS K = 1
M = 2
INIT Init
NEXT Next
