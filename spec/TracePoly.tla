------------------------------ MODULE TracePoly ------------------------------
(* Trace specification for C15: every recorded arithmetic step on Pauli      *)
(* operators / monomials / polynomials / lists / numbers is judged on exact  *)
(* denotations.  A value is [t |-> type tag, terms |-> <<<<wire, re, im, e>>..>>]; *)
(* numbers are recorded as c * identity.  Rec.E is a common scale exponent.  *)
EXTENDS PauliPoly, GaussMat, TraceBase

DecT(w) == [p |-> Dec(w[1]), c |-> <<w[2], w[3]>>, e |-> w[4]]
Val(v)  == [j \in 1..Len(v.terms) |-> DecT(v.terms[j])]
E == Rec.E
WFV(v) == \A j \in 1..Len(v.terms) : WellFormed(v.terms[j][1], Len(v.terms[j][1]) - 1) /\ v.terms[j][4] \in 0..E
WF == /\ Has("x") => WFV(Rec.x)
      /\ Has("y") => WFV(Rec.y)
      /\ Has("ret") => WFV(Rec.ret)
Done == Has("ret") /\ WF
X == Val(Rec.x)
Y == Val(Rec.y)
R == Val(Rec.ret)
Scalar(v) == [c |-> <<v.terms[1][2], v.terms[1][3]>>, e |-> v.terms[1][4]]
IsList(v) == v.t = "L"
\* elementwise comparison for list results
ListEq(a, b) == Len(a) = Len(b) /\ \A j \in 1..Len(a) : DenEq(<<a[j]>>, <<b[j]>>, E)

AddOK == (Rec.op = "add" /\ Done) => DenEq(R, PAdd(X, Y), E)
SubOK == (Rec.op = "sub" /\ Done) => DenEq(R, PAdd(X, PNeg(Y)), E)
MatmulOK == (Rec.op = "matmul" /\ Done) => DenEq(R, PMul(X, Y), E) /\ (Rec.x.t = "P" /\ Rec.y.t = "P" => Rec.ret.t = "P")
\* number * object
MulOK == (Rec.op = "mul" /\ Done) =>
    IF IsList(Rec.y) THEN ListEq(R, PScale(Scalar(Rec.x), Y)) ELSE DenEq(R, PScale(Scalar(Rec.x), Y), E)
\* object / number:  ret * number = object
DivOK == (Rec.op = "div" /\ Done) =>
    IF IsList(Rec.x) THEN ListEq(PScale(Scalar(Rec.y), R), X) ELSE DenEq(PScale(Scalar(Rec.y), R), X, E)
NegOK == (Rec.op = "neg" /\ Done) => IF IsList(Rec.x) THEN ListEq(R, PNeg(X)) ELSE DenEq(R, PNeg(X), E)
\* reduction: same operator; equal strings merged; phases moved into the coefficients;
\* a string is dropped iff its total coefficient is within the tolerance (|c|^2 <= tol^2, tol = Rec.tol[1]/2^Rec.tol[2])
Abs2(c) == c[1] * c[1] + c[2] * c[2]
ReduceOK == (Rec.op = "reduce" /\ Done) =>
    LET keep(s) == Abs2(Coef(X, s, E)) * (2 ^ (2 * Rec.tol[2])) > Rec.tol[1] * Rec.tol[1] * (2 ^ (2 * E)) IN
    /\ \A i, j \in 1..Len(R) : i # j => R[i].p.s # R[j].p.s
    /\ \A j \in 1..Len(R) : R[j].p.k = 0
    /\ \A s \in StringsOf(X) \cup StringsOf(R) : IF keep(s) THEN Coef(R, s, E) = Coef(X, s, E) ELSE s \notin StringsOf(R)
TraceOK == (Rec.op = "trace" /\ Done) =>
    IF IsList(Rec.x) THEN Len(R) = Len(X) /\ \A j \in 1..Len(X) : TermCoef(R[j], E) = PTrace(<<X[j]>>, Rec.n, E)
    ELSE Len(R) = 1 /\ TermCoef(R[1], E) = PTrace(X, Rec.n, E)
\* classifier of an open finding: pyclifford trace() ignores the phase of identity-string terms
KF_TracePhase == ~(Rec.op = "trace" /\ Rec.pkg = "py" /\ Done /\ \E j \in 1..Len(X) : IsId(X[j].p) /\ X[j].p.k # 0)
CopyOK == (Rec.op = "copy" /\ Done) => Rec.ret = Rec.x
\* rotations and maps act linearly: coefficients untouched, each string conjugated
RotOK == (Rec.op = "rot" /\ Done) =>
    Len(R) = Len(X) /\ \A j \in 1..Len(X) : R[j] = [X[j] EXCEPT !.p = Rot(Dec(Rec.g), @)]
\* dense export (N <= 2): entry-wise, scaled by 2^E
MatOfP(x) == LET RECURSIVE S(_)
                 S(j) == IF j = 0 THEN MZero(Dim(Rec.n))
                         ELSE MAdd(S(j - 1), MGScale(TermCoef(x[j], E), Mat([x[j].p EXCEPT !.k = 0])))
             IN S(Len(x))
QutipOK == (Rec.op = "qutip" /\ Has("mat")) =>
    LET M == MatOfP(X) IN
    \A a \in 0..Dim(Rec.n) - 1 : \A b \in 0..Dim(Rec.n) - 1 :
        LET m == Rec.mat[a + 1][b + 1] IN m[3] <= E /\ GS(2 ^ (E - m[3]), <<m[1], m[2]>>) = M[a][b]
\* operands are never modified
\* constants and casts: pauli_identity(n) = 1 * I, pauli_zero(n) = the zero operator, as_monomial / as_polynomial /
\* as_list keep the denotation (and the type they name)
ConstOK == (Rec.op = "const" /\ Done) =>
    /\ DenEq(R, IF Rec.name = "identity" THEN <<[p |-> Id(Rec.n), c |-> <<1, 0>>, e |-> 0]>> ELSE <<>>, E)
    /\ Rec.ret.t = "Q"
CastOK == (Rec.op = "cast" /\ Done) =>
    /\ IF IsList(Rec.ret) THEN ListEq(R, X) ELSE DenEq(R, X, E)
    /\ Rec.ret.t = (CASE Rec.to = "as_monomial" -> "M" [] Rec.to = "as_polynomial" -> "Q" [] OTHER -> "L")
\* (A + B) - B and (B + A) - B denote A, also when B is twelve orders of magnitude larger than A (all numbers involved are
\* exactly representable in double precision; only A, whose coefficients are small dyadics, enters the comparison)
CancelOK == (Rec.op = "cancel" /\ Done) => DenEq(R, X, E)
FrameOK == Done => (Has("x1") => Rec.x1 = Rec.x) /\ (Has("y1") => Rec.y1 = Rec.y)
\* unsupported combinations are refused explicitly (NotImplementedError), never answered wrongly
RefuseOK == Has("refused") => Rec.refused = "NotImplementedError" /\ Rec.expect_refuse = TRUE
NoCrashP == ~Has("exc")
=============================================================================
