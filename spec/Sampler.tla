------------------------------- MODULE Sampler -------------------------------
(***************************************************************************)
(* L2 for C16: random_pair / random_pauli / random_clifford of             *)
(* pyclifford/utils.py as deterministic functions of the raw random bits   *)
(* they consume.  A raw draw for n qubits is <<g1, g2>> with g1 # 0 (the   *)
(* resampling loop discards all-zero g1, which keeps the accepted g1       *)
(* uniform over the non-zero vectors).  Every accepted raw draw is equally *)
(* likely, so the distribution of the output is obtained by *counting*     *)
(* raw draws: MC_Sampler proves the sampler exactly uniform for N <= 2.    *)
(***************************************************************************)
EXTENDS DiagAlg, FiniteSets

Raw(n) == {pr \in BitVecs(n) \X BitVecs(n) : ~IsZero(pr[1])}
\* random_pair: repair commuting pairs at the first non-trivial qubit of g1
PairOf(pr) ==
    LET g1 == pr[1]  g2 == pr[2] IN
    IF AcqImpl(g1, g2) = 1 THEN <<g1, g2>>
    ELSE LET i == FrontQ(g1)
             a == SetBit(g2, 2 * i - 1, (XB(g2, i) + ZB(g1, i)) % 2)
             b == SetBit(a, 2 * i, (ZB(a, i) + XB(g1, i) + ZB(g1, i)) % 2)
         IN <<g1, b>>
\* the table of a one-qubit sample
Table1(pr) == LET p == PairOf(pr) IN <<p[1], p[2]>>
\* random_clifford for n = 2 from raw draws for n = 2 and n = 1
Pad(v) == <<0, 0>> \o v                                    \* embed a 1-qubit vector on qubit 2
Table2(pr2, pr1) ==
    LET p == PairOf(pr2)
        d == Diag2Impl(p[1], p[2], 1)
        inner == Table1(pr1)
        rows0 == <<d.g1, d.g2, Pad(inner[1]), Pad(inner[2])>>
        RECURSIVE Undo(_, _)
        Undo(rows, j) == IF j = 0 THEN rows ELSE Undo([a \in 1..4 |-> RotS(d.gens[j], rows[a])], j - 1)
    IN Undo(rows0, Len(d.gens))
Symplectic(rows) == LET m == Len(rows) IN
    \A a, b \in 1..m : (AcqImpl(rows[a], rows[b]) = 1) = (a # b /\ (a + 1) \div 2 = (b + 1) \div 2)
\* random_pauli: independent one-qubit tables
=============================================================================
