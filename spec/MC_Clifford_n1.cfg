CONSTANTS N = 1
 GROUND = TRUE
 HOMFULL = TRUE
 EMITEDGES = TRUE
INIT Init
NEXT Next
VIEW View
INVARIANT Valid
INVARIANT FixesGenerators
INVARIANT Homomorphism
INVARIANT PhaseLinear
INVARIANT Preserves
INVARIANT PreservesHerm
INVARIANT TransformRefines
INVARIANT InverseOK
INVARIANT ApplyCompose
INVARIANT IdNeutral
INVARIANT AssocGens
INVARIANT EmitState
PROPERTY EdgeIsConjugation
PROPERTY EdgeIsCompose
PROPERTY EdgeInverse
ACTION_CONSTRAINT EmitEdge
