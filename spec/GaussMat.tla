------------------------------- MODULE GaussMat -------------------------------
(***************************************************************************)
(* L0: ground truth.  D x D matrices over the Gaussian integers            *)
(* (<<re, im>> pairs), D = 2^n, and the matrix of a Pauli operator as the  *)
(* Kronecker product of the 2 x 2 Pauli matrices.  Everything the          *)
(* algebraic modules claim is tied to these matrices by TLC for n <= 2.    *)
(***************************************************************************)
EXTENDS PauliGroup

GZero == <<0, 0>>
GOne  == <<1, 0>>
GAdd(a, b) == <<a[1] + b[1], a[2] + b[2]>>
GNeg(a)    == <<0 - a[1], 0 - a[2]>>
GMul(a, b) == <<a[1] * b[1] - a[2] * b[2], a[1] * b[2] + a[2] * b[1]>>
GConj(a)   == <<a[1], 0 - a[2]>>
GScale(c, a) == <<c * a[1], c * a[2]>>
IPow(k)    == CASE k % 4 = 0 -> <<1, 0>> [] k % 4 = 1 -> <<0, 1>> [] k % 4 = 2 -> <<-1, 0>> [] OTHER -> <<0, -1>>

Dim(n) == 2 ^ n
Bit(x, j, n) == (x \div (2 ^ (n - j))) % 2        \* bit of qubit j (1 = most significant)

\* entry (r,c), r,c \in {0,1}, of the 2x2 matrix of a letter
E1(l, r, c) == CASE l = 0 -> IF r = c THEN GOne ELSE GZero
                 [] l = 1 -> IF r # c THEN GOne ELSE GZero
                 [] l = 2 -> IF r = c THEN GZero ELSE IF r = 0 THEN <<0, -1>> ELSE <<0, 1>>
                 [] OTHER -> IF r # c THEN GZero ELSE IF r = 0 THEN GOne ELSE <<-1, 0>>

RECURSIVE ProdE(_, _, _, _, _)
ProdE(s, r, c, j, n) == IF j = 0 THEN GOne
                        ELSE GMul(ProdE(s, r, c, j - 1, n), E1(s[j], Bit(r, j, n), Bit(c, j, n)))

Mat(P) == LET n == NQ(P) IN
          [r \in 0..Dim(n) - 1 |-> [c \in 0..Dim(n) - 1 |-> GMul(IPow(P.k), ProdE(P.s, r, c, n, n))]]

MDim(A) == Cardinality(DOMAIN A)
RECURSIVE Dot(_, _, _, _, _)
Dot(A, B, r, c, m) == IF m < 0 THEN GZero ELSE GAdd(Dot(A, B, r, c, m - 1), GMul(A[r][m], B[m][c]))
MatMul(A, B) == LET D == MDim(A) IN [r \in 0..D - 1 |-> [c \in 0..D - 1 |-> Dot(A, B, r, c, D - 1)]]
MAdd(A, B)   == [r \in DOMAIN A |-> [c \in DOMAIN A |-> GAdd(A[r][c], B[r][c])]]
MScale(k, A) == [r \in DOMAIN A |-> [c \in DOMAIN A |-> GScale(k, A[r][c])]]
MGScale(g, A) == [r \in DOMAIN A |-> [c \in DOMAIN A |-> GMul(g, A[r][c])]]
MNeg(A)      == MScale(-1, A)
MId(D)       == [r \in 0..D - 1 |-> [c \in 0..D - 1 |-> IF r = c THEN GOne ELSE GZero]]
MZero(D)     == [r \in 0..D - 1 |-> [c \in 0..D - 1 |-> GZero]]
MAdj(A)      == [r \in DOMAIN A |-> [c \in DOMAIN A |-> GConj(A[c][r])]]
RECURSIVE TrTo(_, _)
TrTo(A, m) == IF m < 0 THEN GZero ELSE GAdd(TrTo(A, m - 1), A[m][m])
Tr(A) == TrTo(A, MDim(A) - 1)

\* sum of the matrices of a finite set of Paulis (all on n qubits)
RECURSIVE MSum(_, _)
MSum(S, n) == IF S = {} THEN MZero(Dim(n))
              ELSE LET x == CHOOSE x \in S : TRUE IN MAdd(Mat(x), MSum(S \ {x}, n))
=============================================================================
