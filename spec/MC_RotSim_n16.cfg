CONSTANTS N = 16
INIT Init
NEXT SimNext
ACTION_CONSTRAINT EmitSim
