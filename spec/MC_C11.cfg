INIT Init
NEXT Next
