------------------------------- MODULE TraceC17 -------------------------------
(* Trace specification for C17.  Values are opaque projections of whole       *)
(* objects (every array bitwise, ranks, coefficients, compiled maps, layer    *)
(* structure); the clauses are the modifies-sets of Heap.tla:                 *)
(*   query    : no live object changes (receiver, arguments, bystanders)      *)
(*   inplace  : only the receiver changes                                     *)
(*   argmut   : only the first argument changes; of the receiver, fields that *)
(*              were unset before the call (lazily derived maps, recorded     *)
(*              results) are masked by the harness and not compared           *)
(*   copy     : equal value, no shared buffer; poking either side afterwards  *)
(*              leaves the other unchanged                                    *)
EXTENDS TraceBase, FiniteSets
Names(h) == DOMAIN h
Same(h0, h1, except) == \A x \in Names(h0) : (x \notin except) => (x \in Names(h1) /\ h1[x] = h0[x])
Done == ~Has("exc")
QueryOK   == (Rec.op = "call" /\ Done /\ Rec.cls = "query")   => Same(Rec.before, Rec.after, {})
InPlaceOK == (Rec.op = "call" /\ Done /\ Rec.cls = "inplace") => Same(Rec.before, Rec.after, {Rec.recv})
ArgMutOK  == (Rec.op = "call" /\ Done /\ Rec.cls = "argmut")  => Same(Rec.before, Rec.after, {Rec.arg})
\* a state-changing call must not be a silent no-op on its target when the semantics changes it
\* (values are opaque here; "changed" is recorded by the value modules' checks, not required here)
CopyFaithfulOK == (Rec.op = "copy" /\ Done) => Rec.copy = Rec.orig /\ Rec.orig1 = Rec.orig
CopyDisjointOK == (Rec.op = "copy" /\ Done) =>
    /\ Rec.shares = FALSE
    /\ Rec.orig_after_poke_copy = Rec.orig              \* mutate the copy: the original is re-observed unchanged
    /\ Rec.copy_after_poke_orig = Rec.copy_poked        \* mutate the original: the (already poked) copy stays as it was
    /\ Rec.copy_poked # Rec.copy                        \* (the poke really changed something)
\* TLC-generated histories over three slots: every step obeys its modifies-set
StepOK(st) ==
    CASE st.act = "new" -> TRUE
      [] st.act = "copy" -> st.after[st.d] = st.before[st.s] /\ st.shares = FALSE /\ Same(st.before, st.after, {st.d})
      [] st.act = "query" -> Same(st.before, st.after, {})
      [] st.act = "inplace" -> Same(st.before, st.after, {st.o})
      [] st.act = "poke" -> Same(st.before, st.after, {st.o}) /\ st.after[st.o] # st.before[st.o]
      [] OTHER -> FALSE
HistOK == (Rec.op = "hist" /\ Done) => \A j \in 1..Len(Rec.steps) : StepOK(Rec.steps[j])
\* a query is a function of the receiver's (and arguments') current value: the answer does not change when an
\* earlier answer is overwritten by its owner, and after an in-place operation it is the answer an object that was
\* never queried before gives (no hidden state installed by queries: memo tables, caches that go stale)
PureOK == (Rec.op = "pure" /\ Done) =>
    /\ Rec.again = Rec.first
    /\ (Has("live") /\ Has("fresh")) => Rec.live = Rec.fresh
\* histories in which receiver and argument of an earlier call are changed afterwards, each through its own public
\* in-place methods: the other party stays as it was (no structure shared beyond the call)
AfterOK == (Rec.op = "after" /\ Done) => Rec.a1 = Rec.a0 /\ Rec.o1 = Rec.o0
\* module-level constructors (pauli, paulis, identity_map, clifford_rotation_map, the named states and gates, C(k),
\* clifford_rotation_gate, identity_circuit ...) are functions of their arguments: called again after the caller changed
\* in place the object it got the first time, they return the same value as the first time (no shared or memoised parts)
FactoryOK == (Rec.op = "factory" /\ Done) => Rec.again = Rec.first
NoCrash17 == ~Has("exc")
=============================================================================
