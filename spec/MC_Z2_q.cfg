CONSTANTS MAXD = 3
INIT Init
NEXT Next
