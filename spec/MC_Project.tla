------------------------------ MODULE MC_Project ------------------------------
(* C12 at the implementation level: stabilizer_state(list) = projection of the  *)
(* maximally mixed tableau (transcribed stabilizer_project, reverse list order) *)
(* followed by the sign assignment.  For every ordered list of independent      *)
(* commuting signed strings (N <= 2) the result is a valid tableau whose group   *)
(* is the span of the list, with rank N - L, the stabilizers standing in list    *)
(* order -- the fact the sign assignment ps[r:N] = list.ps relies on.            *)
EXTENDS Tableau, TLC
CONSTANTS N
H == {P \in HermSet(N) : ~IsId(P)}
Lists1 == {<<a>> : a \in H}
Lists2 == {<<a, b>> : a, b \in H}
Good(ops) == /\ \A i, j \in 1..Len(ops) : ~Anti(ops[i], ops[j])
             /\ Cardinality(Span(ops, N)) = 2 ^ Len(ops) /\ Neg(Id(N)) \notin Span(ops, N)
ASSUME ProjectRefines == \A ops \in (Lists1 \cup (IF N >= 2 THEN Lists2 ELSE {})) : Good(ops) =>
    LET t == ImplStabilizerState(ops, N) IN
    /\ TableauOK(t.rows, t.r) /\ t.r = N - Len(ops)
    /\ Grp(t.rows, t.r) = Span(ops, N)
    /\ \A j \in 1..Len(ops) : t.rows[t.r + j] = ops[j]
VARIABLE x
Init == x = 0
Next == UNCHANGED x
=============================================================================
