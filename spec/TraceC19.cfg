INIT Init
NEXT Next
INVARIANT NoCrash19
INVARIANT SampleOK
INVARIANT SampleDistOK
INVARIANT DensityExpOK
INVARIANT BinReprOK
INVARIANT SnapshotOK
