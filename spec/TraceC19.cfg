INIT Init
NEXT Next
INVARIANT NoCrash19
INVARIANT SampleOK
INVARIANT SampleDistOK
INVARIANT WideSampleOK
INVARIANT DensityExpOK
INVARIANT BinReprOK
INVARIANT SnapshotOK
INVARIANT PovmOK
