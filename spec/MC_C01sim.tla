------------------------------ MODULE MC_C01sim ------------------------------
(* C01, simulation mode: long random chains of left/right products for N   *)
(* beyond the exhaustive bound; every step is emitted and replayed.        *)
EXTENDS PauliGroup, TLC
CONSTANTS N
VARIABLES acc, lbl
Init == acc = Id(N) /\ lbl = <<"init", Id(N)>>
RandP(x) == [s |-> [i \in 1..N |-> RandomElement({a \in Letters : x = x})], k |-> RandomElement({a \in 0..3 : x = x})]
MulRight(q) == acc' = Mul(acc, q) /\ lbl' = <<"R", q>>
MulLeft(q)  == acc' = Mul(q, acc) /\ lbl' = <<"L", q>>
\* exactly one successor per step (the side is drawn too), so Emit prints the behaviour itself
SimNext == \E q \in {RandP(acc)} : \E side \in {RandomElement({x \in {"L", "R"} : acc = acc})} :
              IF side = "R" THEN MulRight(q) ELSE MulLeft(q)
TypeOK == acc \in PauliSet(N)
EmitSim == PrintT(ToString(<<"S", TLCGet("level"), lbl'[1], Enc(acc), Enc(lbl'[2]), Enc(acc')>>))
=============================================================================
