------------------------------- MODULE TraceC16 -------------------------------
(* Trace specification for C16: validity of every sampled object, and the     *)
(* acceptance region for the distribution tallies (fixed seeds, no flakiness). *)
EXTENDS Clifford, StabSem, Sampler, TraceBase

Done == ~Has("exc")
MapOK == (Rec.op = "randmap" /\ Done) => ValidMap(DecM(Rec.m)) /\ MapN(DecM(Rec.m)) = Rec.n
\* random Pauli map: a product of single-qubit Cliffords -- every image stays on its own qubit
PauliMapOK == (Rec.op = "randmap" /\ Done /\ Rec.name = "random_pauli_map") =>
    \A j \in 1..Len(Rec.m) : Supp(Dec(Rec.m[j])) = {(j + 1) \div 2}
StateOK == (Rec.op = "randstate" /\ Done) =>
    LET rows == DecRows(Rec.post.rows) IN TableauOK(rows, Rec.post.r) /\ DensityOK(rows, Rec.post.r)
\* tallies over a fixed block of seeds.  Rec.support = number of distinct outputs seen, Rec.expect = size of
\* the sample space, Rec.chi2m = 1000 * chi-square statistic against the uniform law, Rec.dof = expect - 1.
\* Acceptance region: every element reached, chi2 <= dof + 8 * sqrt(2 dof)   (8 sigma; evaluated with integers)
DistOK == (Rec.op = "dist" /\ Done) =>
    /\ Rec.support = Rec.expect
    /\ Rec.chi2m <= 1000 * Rec.dof + Rec.slack6m
\* Rec.slack6m / 1000 = 8 * sqrt(2 dof) rounded up, re-derived here with integers: s^2 >= 128 dof > (s-1)^2
SlackOK == (Rec.op = "dist" /\ Done) =>
    LET s == Rec.slack6m \div 1000 IN s * s >= 128 * Rec.dof /\ (s - 1) * (s - 1) < 128 * Rec.dof
\* all sampled outputs of a tally are valid (checked on the distinct outputs when few enough)
DistValidOK == (Rec.op = "dist" /\ Done /\ Has("outputs")) =>
    \A j \in 1..Len(Rec.outputs) : ValidMap(DecM(Rec.outputs[j]))
\* N = 2: the unsigned tables reached include entangling ones (some image has weight 2)
EntangleOK == (Rec.op = "dist" /\ Done /\ Has("outputs") /\ Rec.name = "random_clifford_n2") =>
    \E j \in 1..Len(Rec.outputs) : \E a \in 1..4 : Weight(Dec(Rec.outputs[j][a])) = 2
\* N = 3 (|Sp(6,2)| = 1451520 tables): too many to tally, so a birthday test: among M draws the number of
\* repeated tables must stay within 5 times its expectation M(M-1)/(2*space) (Poisson, mean ~12 for M = 6000);
\* a sampler confined to a subgroup / subset of the tables produces far more repeats
BirthdayOK == (Rec.op = "birthday" /\ Done) =>
    /\ Rec.space = 1451520 /\ Rec.M >= 5000 /\ Rec.M <= 8000
    /\ Rec.collisions <= 200
    /\ Rec.collisions * 2 * Rec.space <= 5 * Rec.M * (Rec.M - 1)
    /\ Has("outputs") => \A j \in 1..Len(Rec.outputs) : ValidMap(DecM(Rec.outputs[j]))
\* very wide maps: inside ONE sampled map the 2N rows are images of the generators, each a uniform non-identity string, so
\* on any fixed qubit each letter appears in about a quarter of the rows (8 sigma of the binomial(2N, 1/4))
RowMarginalOK == (Rec.op = "rowmarginal" /\ Done) =>
    \A j \in 1..Len(Rec.cnt) : \A lt \in 1..4 :
        LET c == Rec.cnt[j][lt]  R == 2 * Rec.n IN (4 * c - R) * (4 * c - R) <= 192 * R
\* five qubits: |Sp(10,2)| = 2.5 * 10^16 symplectic tables, so among 200 000 uniform draws a repeated table has
\* probability below 10^-6: none may occur (a sampler that can only produce a few billion tables repeats itself)
BigBirthdayOK == (Rec.op = "bigbirthday" /\ Done) => Rec.n >= 5 /\ Rec.M >= 100000 /\ Rec.M <= 400000 /\ Rec.collisions = 0
\* fair binary events (sign bits, measurement coins): |c0 - c1| <= 8 sqrt(n)  <=>  (c0-c1)^2 <= 64 n
\* per-qubit letter tallies of the images of X_1 and Z_1 (rows 1, 2 of the map) over M samples: each of I, X, Y, Z
\* in a quarter of the samples -- (4c - M)^2 <= 64 * 3M is 8 sigma of the binomial(M, 1/4); counts add up to M
MarginalOK == (Rec.op = "marginal" /\ Done /\ Rec.exact = FALSE) =>
    \A row \in 1..Len(Rec.cnt) : \A q \in 1..Rec.n :
        LET c == Rec.cnt[row][q] IN
        /\ c[1] + c[2] + c[3] + c[4] = Rec.M
        /\ \A lt \in 1..4 : (4 * c[lt] - Rec.M) * (4 * c[lt] - Rec.M) <= 192 * Rec.M
\* small N, many samples: exact probabilities num / D with D = 4^N - 1, num = 4^(N-1) - [letter = I]; the deviation
\* c - M num / D (rounded towards zero by at most one) within 8 sigma, sigma^2 = M num (D - num) / D^2
\* (the products are arranged to stay below 2^31)
MarginalExactOK == (Rec.op = "marginal" /\ Done /\ Rec.exact = TRUE) =>
    LET D == 4 ^ Rec.n - 1 IN
    \A row \in 1..Len(Rec.cnt) : \A q \in 1..Rec.n :
        LET c == Rec.cnt[row][q] IN
        /\ c[1] + c[2] + c[3] + c[4] = Rec.M
        /\ \A lt \in 1..4 :
              LET num == 4 ^ (Rec.n - 1) - (IF lt = 1 THEN 1 ELSE 0)
                  e0 == (Rec.M * num) \div D
                  dev == IF c[lt] >= e0 THEN c[lt] - e0 ELSE e0 - c[lt]
              IN (dev - 1) * (dev - 1) <= ((((64 * Rec.M) \div D) + 1) * num * (D - num)) \div D
FairOK == (Rec.op = "fair" /\ Done) => (Rec.c0 - Rec.c1) * (Rec.c0 - Rec.c1) <= 64 * (Rec.c0 + Rec.c1) /\ Rec.c0 + Rec.c1 >= 1000
\* gates without maps are resampled at every call: two calls under one seed differ for some seed of the block
ResampleOK == (Rec.op = "resample" /\ Done) => Rec.differ >= 1 /\ Rec.compile_refused = TRUE
\* L2 conformance (model drift, never a verdict): with the raw bits that a seed produces, the transcribed sampler
\* of Sampler.tla yields the table the library returned.  While this holds, MC_Sampler's counting theorems
\* (every symplectic table from exactly 2 / 4 accepted raw draws) make the library's sampler *exactly* uniform.
Drift_RandomPair == (Rec.op = "align" /\ Done /\ Rec.what = "pair") => PairOf(<<Rec.raw[1], Rec.raw[2]>>) = <<Rec.out[1], Rec.out[2]>>
Drift_RandomClifford == (Rec.op = "align" /\ Done /\ Rec.what = "clifford2") =>
    Table2(<<Rec.raw2[1], Rec.raw2[2]>>, <<Rec.raw1[1], Rec.raw1[2]>>) = Rec.out
NoCrash16 == ~Has("exc")
=============================================================================
