CONSTANTS K = 2
M = 2
INIT Init
NEXT Next
