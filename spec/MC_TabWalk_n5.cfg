CONSTANTS N = 5
INIT Init
NEXT SimNext
INVARIANT GroupOK
ACTION_CONSTRAINT EmitSim
