------------------------------- MODULE TraceC13 -------------------------------
(* Trace specification for C13 (port equivalence).  Each record pairs what    *)
(* pyclifford and torchclifford returned for the same well-formed input of a  *)
(* shared function; values are normalised projections (dtype-free: integers,  *)
(* exact dyadics, Pauli letters/phases, ranks) serialised canonically.  The   *)
(* inputs are the ones the other trace specifications judge against the       *)
(* semantics, so agreement here plus those checks give "same and right".     *)
EXTENDS TraceBase
\* same value on both sides; an exception on exactly one side is a disagreement
PortEq == Rec.op = "pair" => (Rec.py = Rec.torch)
\* both sides raising the same documented refusal is agreement; both crashing differently is not
BothOK == (Rec.op = "pair" /\ Rec.py = Rec.torch) => (Rec.py_exc = "none" \/ Rec.py_exc = Rec.torch_exc)
=============================================================================
