CONSTANTS N = 5
INIT Init
NEXT SimNext
ACTION_CONSTRAINT EmitSim
