---------------------------- MODULE TraceCircuit ----------------------------
(* Trace specification for circuits (C09, C10, C14): recorded layouts and    *)
(* the recorded action of forward / backward on probe objects are judged     *)
(* against the sequential program semantics of Circuit.tla.                  *)
EXTENDS Circuit, StabSem, TraceBase

Prog == DecProg(Rec.prog)
IsCirc == Rec.op = "circuit" /\ ~Has("exc")

\* the scenario itself is well-formed (forward and inverse maps really are inverse)
ScenarioOK == IsCirc => ItemsConsistent(Prog)
\* C09: any legal packing is accepted, not just the slide-back one
\* (also for the measured programs of C14: records "traj")
IsProgRec == Rec.op \in {"circuit", "traj"} /\ ~Has("exc") /\ Has("prog")
Variant == IF Has("variant") THEN Rec.variant ELSE "orig"
Cls == IF Has("cls") THEN Rec.cls ELSE "Circuit"
LayoutOK == (IsProgRec /\ Has("layout")) => LayoutLegal(Rec.layout, Prog)
\* C09: forward = the gates applied one at a time in the order they were added
ForwardOK == IsCirc =>
    \A p \in 1..Len(Rec.probes) : LET pr == Rec.probes[p] IN
        ("fwd" \in DOMAIN pr) => Len(pr.fwd) = Len(pr.ins) /\ \A j \in 1..Len(pr.ins) : Dec(pr.fwd[j]) = Forward(Prog, Dec(pr.ins[j]))
\* ... and the library's own gate-by-gate application agrees (localises a defect to gate vs circuit)
SeqOK == IsCirc =>
    \A p \in 1..Len(Rec.probes) : LET pr == Rec.probes[p] IN
        ("seq" \in DOMAIN pr) => Len(pr.seq) = Len(pr.ins) /\ \A j \in 1..Len(pr.ins) : Dec(pr.seq[j]) = Forward(Prog, Dec(pr.ins[j]))
\* compose() leaves its argument an independent circuit: after the composed circuit is extended further, the
\* argument (the second half of the program) still acts as before
OtherOK == (IsCirc /\ Has("other")) =>
    LET tail == SubSeq(Prog, Rec.other.h + 1, Len(Prog)) IN
    \A j \in 1..Len(Rec.other.ins) : Dec(Rec.other.fwd[j]) = Forward(tail, Dec(Rec.other.ins[j]))
\* ... and its backward pass still undoes its forward pass (C10)
OtherBackOK == (IsCirc /\ Has("other") /\ "back" \in DOMAIN Rec.other) =>
    LET tail == SubSeq(Prog, Rec.other.h + 1, Len(Prog)) IN
    /\ Rec.other.back = Rec.other.ins
    /\ \A j \in 1..Len(Rec.other.ins) : Dec(Rec.other.bwd[j]) = Backward(tail, Dec(Rec.other.ins[j]))
\* rank of a state is untouched by unitary circuits
IsRT == Rec.op = "circuit_rt" /\ ~Has("exc")
RankOK == (IsCirc \/ IsRT) =>
    \A p \in 1..Len(Rec.probes) : LET pr == Rec.probes[p] IN
        ("r0" \in DOMAIN pr) => \A f \in {"r_fwd", "r_back", "r_bwd"} : (f \in DOMAIN pr) => pr[f] = pr.r0
\* C10: backward = inverses in reverse order; backward after forward and forward after backward restore
\* the original value bitwise (strings, phases, and for states all 2N rows)
BackwardOK == IsCirc =>
    \A p \in 1..Len(Rec.probes) : LET pr == Rec.probes[p] IN
        ("bwd" \in DOMAIN pr) => Len(pr.bwd) = Len(pr.ins) /\ \A j \in 1..Len(pr.ins) : Dec(pr.bwd[j]) = Backward(Prog, Dec(pr.ins[j]))
\* (also records "circuit_rt": circuits whose compiled maps are documented to be out of date -- both halves compiled,
\* then composed, not compiled again -- where only the round trip is promised, not what forward does)
RoundTripOK == (IsCirc \/ IsRT) =>
    \A p \in 1..Len(Rec.probes) : LET pr == Rec.probes[p] IN
        /\ ("back" \in DOMAIN pr) => pr.back = pr.ins          \* backward(forward(x)) = x
        /\ ("forth" \in DOMAIN pr) => pr.forth = pr.ins        \* forward(backward(x)) = x
NoCrashK == ~Has("exc")

\* ---- beyond the properties (model drift, never a verdict): the EXACT packing and the printed form of a circuit.
\* C09 accepts any legal packing (LayoutOK); here the recorded layout is compared with the transcribed slide-back
\* packing of Circuit.tla (TakeGate / Slide / TakeMz folded over the program in the order the code takes the gates).
\* (PackProg / ComposePack: Circuit.tla)
ModelLayers == IF Variant = "composed" THEN ComposePack(Prog, Rec.h) ELSE PackProg(Prog)
Drift_Packing == (IsProgRec /\ Has("layout") /\ Variant \in {"orig", "copy", "composed"}) =>
    Rec.layout = NonEmpty(ModelLayers)
\* printing: "CliffordCircuit(" then one line per layer, LAST layer first, each "|[q,..][q,..]|" with the qubits as the
\* gate was declared (0-based) or "|Mz[q,..]|"; the always-present first layer prints "||" while it is empty; class
\* Circuit adds a line " Unitary:True/False"
RECURSIVE JoinS(_, _, _)
JoinS(seq, sep, j) == IF j = 0 THEN "" ELSE IF j = 1 THEN seq[1] ELSE JoinS(seq, sep, j - 1) \o sep \o seq[j]
Decl(i) == IF Rec.rev[i] = 1 THEN [a \in 1..Len(Prog[i].qs) |-> Prog[i].qs[Len(Prog[i].qs) + 1 - a]] ELSE Prog[i].qs
GateStr(i) == LET d == Decl(i) IN "[" \o JoinS([a \in 1..Len(d) |-> ToString(d[a] - 1)], ",", Len(d)) \o "]"
LayerStr(lay) == IF Len(lay) = 1 /\ Prog[lay[1]].k = "mz" THEN "|Mz" \o GateStr(lay[1]) \o "|"
                 ELSE "|" \o JoinS([b \in 1..Len(lay) |-> GateStr(lay[b])], "", Len(lay)) \o "|"
Drift_CircuitRepr == (IsProgRec /\ Has("repr") /\ Variant \in {"orig", "copy", "composed"}) =>
    LET L == ModelLayers  k == Len(L)
        body == [j \in 1..k |-> "  " \o LayerStr(L[k + 1 - j]) \o (IF j = k THEN ")" ELSE "")]
        unit == IF \E i \in 1..Len(Prog) : Prog[i].k = "mz" THEN " Unitary:False" ELSE " Unitary:True"
    IN Rec.repr = <<"CliffordCircuit(">> \o body \o (IF Cls = "Circuit" THEN <<unit>> ELSE <<>>)

\* ---- C14: trajectories with measurement layers (Circuit class)
\* rec.outs: recorded outcomes (+1/-1) in order; rec.l2p; state before / after
RECURSIVE Traj(_, _, _, _)
\* returns [S, used (number of outcomes consumed), nund, ok]
Traj(S0, prog, outs, j) ==
    IF j = 0 THEN [S |-> S0, used |-> 0, nund |-> 0, ok |-> TRUE]
    ELSE LET prev == Traj(S0, prog, outs, j - 1)  it == prog[j] IN
         IF it.k # "mz" THEN [prev EXCEPT !.S = {FwdItem(it, s) : s \in prev.S}]
         ELSE LET n == NQ(CHOOSE s \in prev.S : TRUE)
                  obs == [a \in 1..Len(it.qs) |-> ZOp(it.qs[a], n)]
                  bits == [a \in 1..Len(it.qs) |-> IF outs[prev.used + a] = 1 THEN 0 ELSE 1]
                  sem == SemMeasureList(prev.S, obs, bits, Len(obs))
              IN [S |-> sem.S, used |-> prev.used + Len(it.qs), nund |-> prev.nund + sem.nund, ok |-> prev.ok /\ sem.ok]
NumMz(prog) == LET RECURSIVE C(_)
                   C(j) == IF j = 0 THEN 0 ELSE C(j - 1) + (IF prog[j].k = "mz" THEN Len(prog[j].qs) ELSE 0)
               IN C(Len(prog))
TGrpK(t) == Grp(DecRows(t.rows), t.r)
TOKK(t) == TableauOK(DecRows(t.rows), t.r) /\ DensityOK(DecRows(t.rows), t.r)
TrajOK == (Rec.op = "traj" /\ ~Has("exc")) =>
    LET tr == Traj(TGrpK(Rec.pre), Prog, Rec.outs, Len(Prog)) IN
    /\ Len(Rec.outs) = NumMz(Prog) /\ \A j \in 1..Len(Rec.outs) : Rec.outs[j] \in {1, -1}
    /\ tr.ok                                        \* every recorded outcome was possible
    /\ Rec.l2p = 0 - tr.nund                        \* log-probability accumulated
    /\ TOKK(Rec.post) /\ TGrpK(Rec.post) = tr.S     \* state and rank updated like direct measurements
\* the adjoint of the recorded trajectory: gates inverted in reverse order, measurement layers post-select
\* the recorded outcomes; impossible records raise ValueError
RECURSIVE TrajBack(_, _, _, _, _)
\* walks j from Len(prog) down to 1; ptr = outcomes not yet consumed; returns [S, ok]
TrajBack(S1, prog, outs, j, ptr) ==
    IF j = 0 THEN [S |-> S1, ok |-> TRUE]
    ELSE LET it == prog[j] IN
         IF it.k # "mz" THEN TrajBack({BwdItem(it, s) : s \in S1}, prog, outs, j - 1, ptr)
         ELSE LET n == NQ(CHOOSE s \in S1 : TRUE)
                  L == Len(it.qs)
                  \* post-selection in reverse qubit order; order is irrelevant for commuting Z_q
                  obs == [a \in 1..L |-> ZOp(it.qs[a], n)]
                  bits == [a \in 1..L |-> IF outs[ptr - L + a] = 1 THEN 0 ELSE 1]
                  sem == SemMeasureList(S1, obs, bits, L)
              IN IF ~sem.ok THEN [S |-> S1, ok |-> FALSE]
                 ELSE TrajBack(sem.S, prog, outs, j - 1, ptr - L)
TrajBackOK == (Rec.op = "trajback" /\ ~Has("exc")) =>
    IF Len(Rec.outs) # NumMz(Prog) THEN Has("refused") /\ Rec.refused = "ValueError"
    ELSE LET tb == TrajBack(TGrpK(Rec.pre), Prog, Rec.outs, Len(Prog), Len(Rec.outs)) IN
         IF tb.ok THEN ~Has("refused") /\ TOKK(Rec.post) /\ TGrpK(Rec.post) = tb.S
         ELSE Has("refused") /\ Rec.refused = "ValueError"
\* a measurement layer over a very wide register run backward on |+...+> with an arbitrary record: every record has
\* probability 2^-n > 0, so it must not be refused, and the projected state is the basis state the record names
\* (rows are given by their supports and letters: row i must be Z on qubit i with the sign of outcome i)
WideTrajBackOK == (Rec.op = "widetrajback" /\ ~Has("exc")) =>
    /\ ~Has("refused")
    /\ Len(Rec.supp) = Rec.n /\ Len(Rec.outs) = Rec.n
    /\ \A i \in 1..Rec.n : Rec.supp[i] = <<i>> /\ Rec.lett[i] = <<3>> /\ Rec.phase[i] = (IF Rec.outs[i] = 1 THEN 0 ELSE 2)
\* ---- C14: post-selection of (-1)^b P on a pure state: Born probability returned, projected state left;
\* impossible outcome: probability 0 and the state unchanged
PostselectOK == (Rec.op = "postselect" /\ ~Has("exc")) =>
    LET S0 == TGrpK(Rec.pre)  P == Dec(Rec.p)
        Oo == IF Rec.b = 1 THEN Neg(P) ELSE P IN
    IF Rec.pre.r # 0 THEN Has("refused") /\ Rec.refused = "ValueError"      \* pure states only (documented)
    ELSE /\ ~Has("refused") /\ TOKK(Rec.post) /\ Rec.post.r = 0
         /\ IF Oo \in S0 THEN Rec.prob = <<1, 0>> /\ TGrpK(Rec.post) = S0
            ELSE IF Neg(Oo) \in S0 THEN Rec.prob = <<0, 0>> /\ TGrpK(Rec.post) = S0
            ELSE /\ Rec.prob = <<1, 1>>
                 /\ TGrpK(Rec.post) = SemMeasure(S0, P, Rec.b).S
=============================================================================
