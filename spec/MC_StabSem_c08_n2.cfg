CONSTANTS N = 2
 EMITPAIRS = FALSE
 OVL = FALSE
INIT Init
NEXT Next
VIEW View
INVARIANT GroupOK
INVARIANT ReachableIsAll
INVARIANT EntropyGround
INVARIANT EntropyInvariant
