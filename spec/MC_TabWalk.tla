------------------------------ MODULE MC_TabWalk ------------------------------
(***************************************************************************)
(* C05 / C06 / C14, simulation mode: histories of public state-changing    *)
(* operations on one stabilizer state, at the abstract (signed group)      *)
(* level, for N beyond the exhaustive bound.  TLC chooses the operation,   *)
(* its arguments and -- for measurements -- one of the possible outcomes;  *)
(* the driver replays the history on one live StabilizerState (steering    *)
(* the coin to the chosen outcome) and TLC re-judges every recorded step.  *)
(***************************************************************************)
EXTENDS StabSem, Clifford, TLC
CONSTANTS N
VARIABLES S, lbl

Rnd(set, x) == RandomElement({a \in set : x = x})
RandH(x) == [s |-> [i \in 1..N |-> Rnd(Letters, x)], k |-> Rnd({0, 2}, x)]
Init == \E nm \in {"zero", "mixed", "ghz"} :
        /\ S = (IF nm = "zero" THEN ZeroGroup(N) ELSE IF nm = "mixed" THEN MixedGroup(N) ELSE GHZGroup(N))
        /\ lbl = <<"init", nm>>
Pure == Cardinality(S) = 2 ^ N
GateName(g) == g
GateTab(g) == CASE g = "H" -> GateH [] g = "S" -> GateS [] g = "X" -> GateX [] g = "Y" -> GateY [] g = "Z" -> GateZ
                [] g = "CNOT" -> GateCNOT [] OTHER -> GateCNOTrev
Image(mm, qs) == {ApplyMasked(mm, qs, s) : s \in S}
DoRot == \E G \in {RandH(S)} : S' = RotGroup(G, S) /\ lbl' = <<"rot", Enc(G)>>
DoGate1 == \E g \in {Rnd({"H", "S", "X", "Y", "Z"}, S)} : \E q \in {Rnd(1..N, S)} :
              S' = Image(GateTab(g), <<q>>) /\ lbl' = <<"gate", g, <<q>>>>
DoGate2 == N >= 2 /\ \E g \in {Rnd({"CNOT", "CNOTrev"}, S)} : \E a \in {Rnd(1..N - 1, S)} : \E b \in {Rnd(a + 1..N, S)} :
              S' = Image(GateTab(g), <<a, b>>) /\ lbl' = <<"gate", g, <<a, b>>>>
DoMeasure == \E O \in {RandH(S)} :
              LET poss == {o \in 0..1 : SemMeasure(S, O, o).ok} IN
              \E o \in {Rnd(poss, S)} :
                 LET sem == SemMeasure(S, O, o) IN S' = sem.S /\ lbl' = <<"measure", Enc(O), o, IF sem.und THEN 1 ELSE 0>>
DoPostselect == Pure /\ \E P \in {RandH(S)} : \E b \in {Rnd(0..1, S)} :
              LET Oo == IF b = 1 THEN Neg(P) ELSE P
                  C == {s \in S : ~Anti(s, P)} IN
              /\ S' = (IF Oo \in S \/ Neg(Oo) \in S THEN S ELSE C \cup {Mul(s, Oo) : s \in C})
              /\ lbl' = <<"postselect", Enc(P), b>>
SimNext == \E c \in {Rnd(1..6, S)} :
             CASE c = 1 -> DoRot [] c = 2 -> DoGate1 [] c = 3 -> (IF N >= 2 THEN DoGate2 ELSE DoGate1)
               [] c = 4 -> DoMeasure [] c = 5 -> DoMeasure [] OTHER -> (IF Pure THEN DoPostselect ELSE DoRot)
GroupOK == IsStabGroup(S, N) /\ Cardinality(S) \in {2 ^ k : k \in 0..N}
EmitSim == PrintT(ToString(<<"W", TLCGet("level"), lbl', Cardinality(S'), IF lbl[1] = "init" THEN lbl[2] ELSE "">>))
=============================================================================
