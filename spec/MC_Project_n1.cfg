CONSTANTS N = 1
INIT Init
NEXT Next
