CONSTANTS N = 5
INIT Init
NEXT SimNext
INVARIANT Valid
INVARIANT InverseOK
ACTION_CONSTRAINT EmitSim
