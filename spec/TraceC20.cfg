INIT Init
NEXT Next
INVARIANT NoCrash20
INVARIANT ParseOK
INVARIANT ParseDictOK
INVARIANT ReprOK
INVARIANT TokenizeOK
INVARIANT ListOK
INVARIANT SelectOK
INVARIANT ScaleOK
INVARIANT WeightOK
INVARIANT Drift_Refusal
INVARIANT Drift_ListRepr
INVARIANT Drift_MapRepr
INVARIANT Drift_StateRepr
INVARIANT TokenizeListOK
