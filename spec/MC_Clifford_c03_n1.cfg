CONSTANTS N = 1
 GROUND = FALSE
 HOMFULL = TRUE
 EMITEDGES = FALSE
INIT Init
NEXT Next
VIEW View
INVARIANT Valid
INVARIANT FixesGenerators
INVARIANT Homomorphism
INVARIANT PhaseLinear
INVARIANT Preserves
INVARIANT PreservesHerm
INVARIANT TransformRefines
INVARIANT EmitState
PROPERTY EdgeIsConjugation
