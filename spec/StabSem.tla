------------------------------- MODULE StabSem -------------------------------
(***************************************************************************)
(* L1: stabilizer states as *signed stabilizer groups*.                    *)
(* An abstract state on n qubits is a set S of Hermitian Pauli operators   *)
(* with Id \in S, closed under Mul, pairwise commuting, -Id \notin S.  It  *)
(* denotes rho = 2^-n * SUM_{s \in S} s  (= 2^-r PROD (1+g_a)/2 for any    *)
(* generating set), a projector of rank 2^r with |S| = 2^(n-r).            *)
(* Every observable of the API is a set formula over S; MC_StabSem ties    *)
(* each of them to explicit density matrices.                              *)
(*                                                                         *)
(* A concrete tableau is <<rows, r>>: 2n operators laid out as in the      *)
(* StabilizerState docstring; Grp is the refinement mapping.               *)
(***************************************************************************)
EXTENDS PauliGroup

\* ---------- groups
RECURSIVE SpanTo(_, _, _, _)
SpanTo(rows, lo, hi, n) == IF hi < lo THEN {Id(n)}
                           ELSE LET S == SpanTo(rows, lo, hi - 1, n) IN S \cup {Mul(s, rows[hi]) : s \in S}
Span(ops, n) == SpanTo(ops, 1, Len(ops), n)
IsStabGroup(S, n) == /\ Id(n) \in S /\ Neg(Id(n)) \notin S
                     /\ \A s \in S : Herm(s) /\ NQ(s) = n
                     /\ \A s, t \in S : ~Anti(s, t) /\ Mul(s, t) \in S
RECURSIVE Log2(_)
Log2(x) == IF x <= 1 THEN 0 ELSE 1 + Log2(x \div 2)
RankOf(S, n) == n - Log2(Cardinality(S))

\* ---------- tableau
TabN(rows) == Len(rows) \div 2
Dual(j, n) == IF j <= n THEN j + n ELSE j - n
TableauOK(rows, r) == LET n == TabN(rows) IN
    /\ Len(rows) = 2 * n /\ r \in 0..n
    /\ \A j \in 1..2 * n : NQ(rows[j]) = n
    /\ \A i, j \in 1..2 * n : Anti(rows[i], rows[j]) = (j = Dual(i, n))
    /\ \A j \in r + 1..n : Herm(rows[j])
Grp(rows, r) == SpanTo(rows, r + 1, TabN(rows), TabN(rows))
\* derived facts that must follow (checked as invariants of the models, and on recorded tableaux)
DensityOK(rows, r) == LET n == TabN(rows)  S == Grp(rows, r) IN
    IsStabGroup(S, n) /\ Cardinality(S) = 2 ^ (n - r)

\* ---------- observables
Strip(P) == [P EXCEPT !.k = 0]
\* Tr(rho P) as a Gaussian integer <<re, im>>  (values 0, +-1, +-i)
ExpectG(S, P) == LET P0 == Strip(P)
                     sgn == IF P0 \in S THEN 1 ELSE IF Neg(P0) \in S THEN -1 ELSE 0
                 IN CASE P.k = 0 -> <<sgn, 0>> [] P.k = 1 -> <<0, sgn>> [] P.k = 2 -> <<0 - sgn, 0>> [] OTHER -> <<0, 0 - sgn>>
Expect(S, P) == ExpectG(S, P)[1]                       \* Hermitian P: the real value
\* 2^n Tr(rho sigma)
OverlapNum(S, T) == Cardinality({s \in S : s \in T}) - Cardinality({s \in S : Neg(s) \in T})
BasisGroup(bits) == LET n == Len(bits) IN
    Span([i \in 1..n |-> IF bits[i] = 0 THEN ZOp(i, n) ELSE Neg(ZOp(i, n))], n)
\* 2^n <b|rho|b>
ProbNum(S, bits) == OverlapNum(S, BasisGroup(bits))
\* von Neumann entropy (bits) of the reduced state on region A
Entropy(S, A) == Cardinality(A) - Log2(Cardinality({s \in S : Supp(s) \subseteq A}))

\* ---------- measurement / projection
\* measuring Hermitian O with outcome o (0 -> +1, 1 -> -1):
\*   [S |-> post-state, und |-> TRUE iff the outcome was undetermined (prob 1/2), ok |-> FALSE iff impossible]
SemMeasure(S, O, o) ==
    LET Oo == IF o = 1 THEN Neg(O) ELSE O IN
    IF Oo \in S THEN [S |-> S, und |-> FALSE, ok |-> TRUE]
    ELSE IF Neg(Oo) \in S THEN [S |-> S, und |-> FALSE, ok |-> FALSE]
    ELSE LET C == {s \in S : ~Anti(s, O)} IN
         [S |-> C \cup {Mul(s, Oo) : s \in C}, und |-> TRUE, ok |-> TRUE]
\* a list of observables measured in order with outcomes outs:
\*   [S, nund (number of undetermined outcomes = -log2 prob), ok]
RECURSIVE SemMeasureList(_, _, _, _)
SemMeasureList(S, obs, outs, j) ==
    IF j = 0 THEN [S |-> S, nund |-> 0, ok |-> TRUE]
    ELSE LET prev == SemMeasureList(S, obs, outs, j - 1)
             step == SemMeasure(prev.S, obs[j], outs[j])
         IN [S |-> step.S, nund |-> prev.nund + (IF step.und THEN 1 ELSE 0), ok |-> prev.ok /\ step.ok]
\* the logical-operator criterion: the group doubles iff no element anticommutes with O
RankDrops(S, O) == Strip(O) \notin S /\ Neg(Strip(O)) \notin S /\ \A s \in S : ~Anti(s, O)

\* ---------- unitary action
RotGroup(G, S) == {Rot(G, s) : s \in S}

\* ---------- constructors
ZeroGroup(n) == Span([i \in 1..n |-> ZOp(i, n)], n)
OneGroup(n)  == Span([i \in 1..n |-> Neg(ZOp(i, n))], n)
MixedGroup(n) == {Id(n)}
GHZGroup(n) == Span([i \in 1..n |-> IF i < n
                                   THEN [s |-> [j \in 1..n |-> IF j = i \/ j = i + 1 THEN 3 ELSE 0], k |-> 0]
                                   ELSE [s |-> [j \in 1..n |-> 1], k |-> 0]], n)

\* ---------- wire format of a tableau: [rows |-> <<wires>>, r |-> r]
DecRows(ws) == [j \in 1..Len(ws) |-> Dec(ws[j])]
=============================================================================
