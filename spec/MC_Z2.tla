--------------------------------- MODULE MC_Z2 ---------------------------------
(* C04 / C08 at the implementation level: the transcribed z2rank and z2inv     *)
(* agree with their definitions on every binary matrix up to MAXD x MAXD.      *)
EXTENDS Z2, TLC
CONSTANTS MAXD
Mats(nr, nc) == [1..nr -> [1..nc -> {0, 1}]]
ASSUME RankRefines == \A nr \in 1..MAXD : \A nc \in 1..MAXD : \A m \in Mats(nr, nc) : Z2RankImpl(m) = Z2RankDef(m)
ASSUME InvRefines == \A n \in 1..MAXD : \A m \in Mats(n, n) :
    LET r == Z2InvImpl(m) IN
    IF Z2RankDef(m) = n THEN r[1] = "ok" /\ MatMul2(m, r[2]) = Ident(n) /\ MatMul2(r[2], m) = Ident(n)
    ELSE r[1] = "raise"
VARIABLE x
Init == x = 0
Next == UNCHANGED x
=============================================================================
