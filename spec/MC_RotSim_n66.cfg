CONSTANTS N = 66
INIT Init
NEXT SimNext
ACTION_CONSTRAINT EmitSim
