CONSTANTS N = 2
INIT Init
NEXT Next
