------------------------------ MODULE PauliPoly ------------------------------
(***************************************************************************)
(* L1: Pauli polynomials as exact operator-valued expressions (C15).       *)
(* A value is a sequence of terms [p |-> Pauli, c |-> <<re, im>>, e |-> k] *)
(* denoting  SUM (re + i im)/2^e * i^(p.k) * string(p).  Its denotation at *)
(* scale E is the function  string |-> Gaussian integer  (coefficient      *)
(* times 2^E).  Sums, products, scalar multiples, reduction and traces are *)
(* defined on denotations; MC_PauliPoly grounds them in matrices.          *)
(***************************************************************************)
EXTENDS PauliGroup

GA(a, b) == <<a[1] + b[1], a[2] + b[2]>>
GM(a, b) == <<a[1] * b[1] - a[2] * b[2], a[1] * b[2] + a[2] * b[1]>>
GS(k, a) == <<k * a[1], k * a[2]>>
GI(k)    == CASE k % 4 = 0 -> <<1, 0>> [] k % 4 = 1 -> <<0, 1>> [] k % 4 = 2 -> <<-1, 0>> [] OTHER -> <<0, -1>>

\* coefficient of one term at scale E (requires t.e <= E)
TermCoef(t, E) == GS(2 ^ (E - t.e), GM(t.c, GI(t.p.k)))
RECURSIVE CoefAt(_, _, _, _)
CoefAt(terms, s, E, j) == IF j = 0 THEN <<0, 0>>
    ELSE GA(CoefAt(terms, s, E, j - 1), IF terms[j].p.s = s THEN TermCoef(terms[j], E) ELSE <<0, 0>>)
Coef(terms, s, E) == CoefAt(terms, s, E, Len(terms))
StringsOf(terms) == {terms[j].p.s : j \in 1..Len(terms)}
\* equality of denotations
DenEq(x, y, E) == \A s \in StringsOf(x) \cup StringsOf(y) : Coef(x, s, E) = Coef(y, s, E)

\* ---- algebra on term sequences
PNeg(x)      == [j \in 1..Len(x) |-> [x[j] EXCEPT !.c = GS(-1, @)]]
PAdd(x, y)   == x \o y
\* scalar (re + i im)/2^e
PScale(c, x) == [j \in 1..Len(x) |-> [x[j] EXCEPT !.c = GM(c.c, @), !.e = @ + c.e]]
PNum(c, n)   == <<[p |-> Id(n), c |-> c.c, e |-> c.e]>>             \* c * identity
PMul(x, y)   == [a \in 1..Len(x) * Len(y) |->
                   LET i == ((a - 1) \div Len(y)) + 1  j == ((a - 1) % Len(y)) + 1 IN
                   [p |-> Mul(x[i].p, y[j].p), c |-> GM(x[i].c, y[j].c), e |-> x[i].e + y[j].e]]
\* trace: 2^n * coefficient of the identity string (scale E)
PTrace(x, n, E) == GS(2 ^ n, Coef(x, [i \in 1..n |-> 0], E))
\* images under rotations / maps act term by term and leave coefficients alone
PRot(G, x) == [j \in 1..Len(x) |-> [x[j] EXCEPT !.p = Rot(G, @)]]
=============================================================================
