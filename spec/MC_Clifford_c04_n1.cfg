CONSTANTS N = 1
 GROUND = FALSE
 HOMFULL = FALSE
 EMITEDGES = TRUE
INIT Init
NEXT Next
VIEW View
INVARIANT Valid
INVARIANT InverseOK
INVARIANT ApplyCompose
INVARIANT IdNeutral
INVARIANT AssocGens
INVARIANT EmitState
PROPERTY EdgeIsCompose
PROPERTY EdgeInverse
ACTION_CONSTRAINT EmitEdge
