------------------------------- MODULE Tableau -------------------------------
(***************************************************************************)
(* L2: the tableau algorithms of pyclifford/utils.py, transcribed at the   *)
(* granularity of their case analysis (scan order, pivot choice, partner   *)
(* replacement, rank extension with its three swap cases, phase updates    *)
(* only where the code makes them).  A tableau is <<rows, r>> with rows a  *)
(* sequence of 2n operators (letters + phase = the code's gs row + ps      *)
(* entry):                                                                 *)
(*   1..r        standby stabilizers      r+1..n      active stabilizers   *)
(*   n+1..n+r    standby destabilizers    n+r+1..2n   active destabilizers *)
(* MC_Tableau proves that these algorithms preserve TableauOK and refine   *)
(* the signed-group semantics of StabSem on every valid tableau (N <= 2),  *)
(* and the trace specifications compare them bitwise with what the code    *)
(* did (reported as model drift, never as a violation).                    *)
(***************************************************************************)
EXTENDS StabSem

\* scan order of the kernels after the pivot fix: active stabilizers, standby stabilizers, destabilizers
ScanIdx(jj, r, n) == IF jj <= n THEN ((jj - 1 + r) % n) + 1 ELSE jj
SetS(P, s) == [s |-> s, k |-> P.k]                     \* overwrite the string, keep the phase slot (gs-only writes)
SwapS(rows, a, b) == [rows EXCEPT ![a] = SetS(rows[a], rows[b].s), ![b] = SetS(rows[b], rows[a].s)]

\* one pass of the j-loop of stabilizer_measure / _projection_trace for observable O
RECURSIVE MScan(_, _, _, _, _)
MScan(st, O, r, n, jj) ==
    IF jj > 2 * n THEN st
    ELSE LET j == ScanIdx(jj, r, n) IN
         IF ~Anti(st.rows[j], O) THEN MScan(st, O, r, n, jj + 1)
         ELSE IF st.upd THEN
                 \* not the first anticommuting row: multiply by the pivot; the phase only matters for stabilizers
                 LET prod == Mul(st.rows[j], st.rows[st.p])
                     nr == IF j <= n THEN prod ELSE SetS(st.rows[j], prod.s)
                 IN MScan([st EXCEPT !.rows[j] = nr], O, r, n, jj + 1)
              ELSE IF j <= n + r THEN MScan([st EXCEPT !.upd = TRUE, !.p = j], O, r, n, jj + 1)      \* pivot found
              ELSE MScan([st EXCEPT !.acc = Mul(@, st.rows[j - n])], O, r, n, jj + 1)                \* collect stabilizer j-n

\* the update after the scan: partner replacement, rank extension, new phase ph at the pivot
Settle(st, O, r, n, ph) ==
    LET p == st.p
        q == Dual(p, n)
        ext == ~(r < p /\ p <= n)
        rows1 == [st.rows EXCEPT ![q] = SetS(st.rows[q], st.rows[p].s), ![p] = SetS(st.rows[p], O.s)]
        t == r                                          \* position r-1 (0-based) after r -= 1
        rows2 == IF ~ext THEN rows1
                 ELSE IF p = t THEN rows1
                 ELSE IF q = t THEN SwapS(rows1, p, q)
                 ELSE SwapS(SwapS(rows1, p, t), q, Dual(t, n))
        pp == IF ext THEN t ELSE p
    IN [rows |-> [rows2 EXCEPT ![pp] = [s |-> rows2[pp].s, k |-> ph]], r |-> IF ext THEN r - 1 ELSE r]

\* stabilizer_measure for one observable and one coin value
ImplMeasure1(rows, r, O, coin) ==
    LET n == TabN(rows)
        st == MScan([rows |-> rows, upd |-> FALSE, p |-> 0, acc |-> Id(n)], O, r, n, 1)
    IN IF st.upd
       THEN LET t == Settle(st, O, r, n, 2 * coin) IN
            [rows |-> t.rows, r |-> t.r, out |-> ((2 * coin - O.k + 4) % 4) \div 2, und |-> TRUE, eig |-> TRUE]
       ELSE [rows |-> rows, r |-> r, out |-> ((st.acc.k - O.k + 4) % 4) \div 2, und |-> FALSE, eig |-> st.acc.s = O.s]
\* the coin that produces a recorded outcome
CoinFor(O, out) == (out + O.k \div 2) % 2
RECURSIVE ImplMeasureList(_, _, _, _, _)
ImplMeasureList(rows, r, obs, outs, j) ==
    IF j = 0 THEN [rows |-> rows, r |-> r, nund |-> 0]
    ELSE LET prev == ImplMeasureList(rows, r, obs, outs, j - 1)
             m == ImplMeasure1(prev.rows, prev.r, obs[j], CoinFor(obs[j], outs[j]))
         IN [rows |-> m.rows, r |-> m.r, nund |-> prev.nund + (IF m.und THEN 1 ELSE 0)]

\* stabilizer_projection_trace for one signed observable: <<tableau, 2*factor>> (factor 1, 1/2 or 0)
ImplProjTrace1(rows, r, O) ==
    LET n == TabN(rows)
        st == MScan([rows |-> rows, upd |-> FALSE, p |-> 0, acc |-> Id(n)], O, r, n, 1)
    IN IF st.upd THEN LET t == Settle(st, O, r, n, O.k) IN [rows |-> t.rows, r |-> t.r, f2 |-> 1]
       ELSE [rows |-> rows, r |-> r, f2 |-> IF st.acc.k = O.k THEN 2 ELSE 0]

\* stabilizer_expect for one observable
RECURSIVE EScan(_, _, _, _, _)
EScan(acc, rows, O, r, j) ==
    IF j > Len(rows) THEN <<TRUE, acc>>
    ELSE IF ~Anti(rows[j], O) THEN EScan(acc, rows, O, r, j + 1)
    ELSE IF j <= TabN(rows) + r THEN <<FALSE, acc>>
    ELSE EScan(Mul(acc, rows[j - TabN(rows)]), rows, O, r, j + 1)
ImplExpect1(rows, r, O) ==
    LET e == EScan(Id(TabN(rows)), rows, O, r, 1) IN
    IF ~e[1] THEN 0 ELSE IF ((e[2].k - O.k + 4) % 4) \div 2 = 0 THEN 1 ELSE -1

\* stabilizer_postselection (pure states): <<tableau, 2*prob>>
RECURSIVE PScan(_, _, _, _)
PScan(st, O, n, j) ==
    IF j > 2 * n THEN st
    ELSE IF ~Anti(st.rows[j], O) THEN PScan(st, O, n, j + 1)
    ELSE IF st.upd THEN
            LET prod == Mul(st.rows[j], st.rows[st.p])
                nr == IF j <= n THEN prod ELSE SetS(st.rows[j], prod.s)
            IN PScan([st EXCEPT !.rows[j] = nr], O, n, j + 1)
         ELSE IF j <= n THEN PScan([st EXCEPT !.upd = TRUE, !.p = j], O, n, j + 1)
         ELSE PScan([st EXCEPT !.acc = Mul(@, st.rows[j - n])], O, n, j + 1)
ImplPostselect(rows, Oo) ==
    LET n == TabN(rows)
        st == PScan([rows |-> rows, upd |-> FALSE, p |-> 0, acc |-> Id(n)], Oo, n, 1)
    IN IF st.upd
       THEN LET p == st.p  q == Dual(p, n)
                rows1 == [st.rows EXCEPT ![q] = SetS(st.rows[q], st.rows[p].s), ![p] = [s |-> Oo.s, k |-> Oo.k]]
            IN [rows |-> rows1, p2 |-> 1]
       ELSE [rows |-> rows, p2 |-> IF st.acc.k = Oo.k THEN 2 ELSE 0]

\* stabilizer_project (strings only; phases are not touched) for one observable
RECURSIVE JScan(_, _, _, _, _)
JScan(st, O, r, n, jj) ==
    IF jj > 2 * n THEN st
    ELSE LET j == ScanIdx(jj, r, n) IN
         IF ~Anti(st.rows[j], O) THEN JScan(st, O, r, n, jj + 1)
         ELSE IF st.upd THEN JScan([st EXCEPT !.rows[j] = SetS(@, Mul(st.rows[j], st.rows[st.p]).s)], O, r, n, jj + 1)
              ELSE IF j <= n + r THEN JScan([st EXCEPT !.upd = TRUE, !.p = j], O, r, n, jj + 1)
              ELSE JScan(st, O, r, n, jj + 1)
ImplProject1(rows, r, O) ==
    LET n == TabN(rows)
        st == JScan([rows |-> rows, upd |-> FALSE, p |-> 0], O, r, n, 1)
    IN IF ~st.upd THEN [rows |-> rows, r |-> r]
       ELSE LET t == Settle([st EXCEPT !.rows = st.rows], O, r, n, 0)       \* same partner / extension / swap logic
                pp == IF ~(r < st.p /\ st.p <= n) THEN r ELSE st.p
            IN [rows |-> [t.rows EXCEPT ![pp] = SetS(st.rows[pp], t.rows[pp].s)], r |-> t.r]
\* stabilizer_state(list): project the maximally mixed tableau onto the list in reverse order, then write the signs
RECURSIVE ProjectAll(_, _, _, _)
ProjectAll(rows, r, ops, j) == IF j = 0 THEN [rows |-> rows, r |-> r]
    ELSE LET t == ImplProject1(rows, r, ops[j]) IN ProjectAll(t.rows, t.r, ops, j - 1)
MixedRows(n) == [j \in 1..2 * n |-> IF j <= n THEN ZOp(j, n) ELSE XOp(j - n, n)]
ImplStabilizerState(ops, n) ==
    LET t == ProjectAll(MixedRows(n), n, ops, Len(ops)) IN
    [rows |-> [j \in 1..2 * n |-> IF j > t.r /\ j <= n THEN [s |-> t.rows[j].s, k |-> ops[j - t.r].k] ELSE t.rows[j]], r |-> t.r]

\* stabilizer_entropy(gs[r:N], mask): "pure" branch (no standby rows): half the GF(2) rank of the anticommutation matrix
\* of the region-restricted crossing stabilizers; "mixed" branch: |A| minus the number of independent stabilizers
\* supported inside A (= L - rank of the restriction to the complement).  The rank is the transcribed z2rank.
LOCAL Z2I == INSTANCE Z2
XB(l) == IF l \in {1, 2} THEN 1 ELSE 0
ZB(l) == IF l \in {2, 3} THEN 1 ELSE 0
RECURSIVE SeqOfSet(_)
SeqOfSet(T) == IF T = {} THEN <<>> ELSE LET m == CHOOSE x \in T : \A y \in T : x <= y IN <<m>> \o SeqOfSet(T \ {m})
\* bits of a string restricted to the (sorted) qubits qs: x1 z1 x2 z2 ...
RestrictBits(P, qs) == [j \in 1..2 * Len(qs) |-> IF j % 2 = 1 THEN XB(P.s[qs[(j + 1) \div 2]]) ELSE ZB(P.s[qs[j \div 2]])]
AntiBits(a, b) == LET n2 == Len(a) \div 2 IN
    (Cardinality({q \in 1..n2 : (a[2 * q - 1] * b[2 * q] + a[2 * q] * b[2 * q - 1]) % 2 = 1})) % 2
ImplEntropy(rows, r, A) ==
    LET n == TabN(rows)
        stab == [j \in 1..n - r |-> rows[r + j]]
        qin == SeqOfSet(A)  qout == SeqOfSet((1..n) \ A)
        L == n - r
        inside(j) == \E q \in A : stab[j].s[q] # 0
        outside(j) == \E q \in (1..n) \ A : stab[j].s[q] # 0
        acr == SeqOfSet({j \in 1..L : inside(j) /\ outside(j)})
    IN IF A = {} THEN 0                                   \* StabilizerState.entropy: empty subsystem
       ELSE IF L = n
       THEN LET sub == [a \in 1..Len(acr) |-> RestrictBits(stab[acr[a]], qin)]
                M == [a \in 1..Len(acr) |-> [b \in 1..Len(acr) |-> AntiBits(sub[a], sub[b])]]
            IN Z2I!Z2RankImpl(M) \div 2
       ELSE LET comp == [j \in 1..L |-> RestrictBits(stab[j], qout)]
            IN Cardinality(A) - (L - (IF L = 0 \/ Len(qout) = 0 THEN 0 ELSE Z2I!Z2RankImpl(comp)))

\* rotations and maps act row by row
ImplRotate(rows, G) == [j \in 1..Len(rows) |-> Rot(G, rows[j])]
=============================================================================
