INIT Init
NEXT Next
INVARIANT NoCrashS
INVARIANT RefuseOK
INVARIANT PreValid
INVARIANT PostValid
INVARIANT MeasureOK
INVARIANT BranchesOK
INVARIANT ExpectListOK
INVARIANT ExpectPolyOK
INVARIANT OverlapOK
INVARIANT ProbOK
INVARIANT QueryFrameOK
INVARIANT EntropyOK
INVARIANT CtorOK
INVARIANT ToStateOK
INVARIANT RandCtorOK
INVARIANT QutipOK
INVARIANT FromStabOK
INVARIANT StepsValid
INVARIANT StepsHermOK
INVARIANT StepsRotOK
INVARIANT StepsTransformOK
INVARIANT StepsGateOK
INVARIANT StepsMeasureOK
INVARIANT StepsPostselectOK
INVARIANT StepsCopyOK
INVARIANT WalkOK
INVARIANT WideCircOK
INVARIANT Drift_WideCirc
INVARIANT Drift_Measure
INVARIANT Drift_FromStab
INVARIANT Drift_Refusal
INVARIANT Drift_Decompose
INVARIANT WideEntropyOK
INVARIANT GHZEntropyOK
