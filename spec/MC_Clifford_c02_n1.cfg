CONSTANTS N = 1
 GROUND = TRUE
 HOMFULL = FALSE
 EMITEDGES = TRUE
INIT Init
NEXT Next
VIEW View
INVARIANT Valid
PROPERTY EdgeIsConjugation
PROPERTY EdgeIsCompose
ACTION_CONSTRAINT EmitEdge
