------------------------------ MODULE MC_Sampler ------------------------------
(* C16 / C18 exact statements, checked by TLC as closed theorems:            *)
(*  - pauli_diagonalize1 / 2 postconditions for every string / every        *)
(*    anticommuting pair and every target qubit (N <= NMAX);                 *)
(*  - random_pair is exactly 2-to-1 from accepted raw draws onto             *)
(*    anticommuting pairs (so uniform);                                      *)
(*  - random_clifford reaches every symplectic table (6 for N=1, 720 for     *)
(*    N=2) from exactly the same number of accepted raw draws (2 / 4).       *)
EXTENDS Sampler, TLC
CONSTANTS NMAX, FULL2

ASSUME Diag1Post == \A n \in 1..NMAX : \A g \in BitVecs(n) : \A i0 \in 1..n :
    (~IsZero(g)) => RotSeqS(Diag1Impl(g, i0), g, 1) = ZVec(i0, n)
ASSUME Diag2Post == \A n \in 1..NMAX : \A g1, g2 \in BitVecs(n) : \A i0 \in 1..n :
    (AcqImpl(g1, g2) = 1) =>
        LET d == Diag2Impl(g1, g2, i0) IN
        /\ d.g1 = ZVec(i0, n) /\ RotSeqS(d.gens, g1, 1) = d.g1 /\ RotSeqS(d.gens, g2, 1) = d.g2
        /\ IsOnsite(d.g2, i0) /\ XB(d.g2, i0) = 1 /\ Len(d.gens) <= 3
AntiPairs(n) == {pq \in BitVecs(n) \X BitVecs(n) : AcqImpl(pq[1], pq[2]) = 1}
ASSUME PairUniform == \A n \in 1..2 :
    /\ \A pr \in Raw(n) : PairOf(pr) \in AntiPairs(n)
    /\ \A pq \in AntiPairs(n) : Cardinality({pr \in Raw(n) : PairOf(pr) = pq}) = 2
ASSUME Clifford1Uniform ==
    LET T == {Table1(pr) : pr \in Raw(1)} IN
    /\ Cardinality(T) = 6 /\ \A t \in T : Symplectic(t)
    /\ \A t \in T : Cardinality({pr \in Raw(1) : Table1(pr) = t}) = 2
Draws == Raw(2) \X Raw(1)
TabFun == [dd \in Draws |-> Table2(dd[1], dd[2])]          \* evaluated once (2880 draws)
ASSUME Clifford2Uniform == FULL2 =>
    LET T == {TabFun[dd] : dd \in Draws} IN
    /\ Cardinality(Draws) = 2880
    /\ Cardinality(T) = 720 /\ \A t \in T : Symplectic(t)
    /\ \A t \in T : Cardinality({dd \in Draws : TabFun[dd] = t}) = 4
VARIABLE x
Init == x = 0
Next == UNCHANGED x
=============================================================================
