CONSTANTS NMAX = 2
 FULL2 = TRUE
INIT Init
NEXT Next
