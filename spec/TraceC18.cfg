INIT Init
NEXT Next
INVARIANT NoCrash18
INVARIANT DiagOK
INVARIANT CausalOK
INVARIANT FrontOK
INVARIANT CondenseOK
INVARIANT OnsiteOK
INVARIANT Diag2OK
INVARIANT StateDiagOK
INVARIANT SBRGWellFormedOK
INVARIANT SBRGDiagOK
INVARIANT SBRGExactOK
INVARIANT Drift_Diag2
INVARIANT Drift_Diag1
INVARIANT Drift_Refusal
INVARIANT WideStateDiagOK
INVARIANT Drift_WideStateDiag
INVARIANT DiagFrameOK
