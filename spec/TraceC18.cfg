INIT Init
NEXT Next
INVARIANT NoCrash18
INVARIANT DiagOK
INVARIANT CausalOK
INVARIANT FrontOK
INVARIANT CondenseOK
INVARIANT OnsiteOK
INVARIANT Diag2OK
INVARIANT StateDiagOK
INVARIANT SBRGDiagOK
INVARIANT SBRGExactOK
