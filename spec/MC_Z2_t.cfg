CONSTANTS MAXD = 4
INIT Init
NEXT Next
