CONSTANTS N = 24
INIT Init
NEXT SimNext
ACTION_CONSTRAINT EmitSim
