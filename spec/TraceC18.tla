------------------------------- MODULE TraceC18 -------------------------------
(* Trace specification for C18: circuits returned by diagonalize() and SBRG() *)
(* are judged by their postconditions, independently of how they were found:  *)
(* TLC applies the recorded rotation gates itself.                            *)
EXTENDS Circuit, StabSem, PauliPoly, DiagAlg, TraceBase

DecGate(w) == [k |-> "gen", qs |-> w.qs, g |-> Dec(w.g)]
Gates == [j \in 1..Len(Rec.gates) |-> DecGate(Rec.gates[j])]
Done == ~Has("exc")
PlusMinusZ(Q, i0, n) == Q = ZOp(i0, n) \/ Q = Neg(ZOp(i0, n))

\* diagonalize(Pauli): the circuit maps the operator to +-Z on the requested qubit
DiagOK == (Rec.op = "diag" /\ Done) =>
    LET P == Dec(Rec.p)  n == NQ(P) IN
    /\ \A j \in 1..Len(Gates) : Herm(Gates[j].g) /\ Len(Gates[j].qs) = NQ(Gates[j].g)
    /\ (Rec.causal = FALSE) => PlusMinusZ(Forward(Gates, P), Rec.i0, n)     \* causal mode: see CausalOK
    /\ Dec(Rec.fwd) = Forward(Gates, P)                   \* what circ.forward really returned
\* diagonalize() is a query: the operator it was given is as before
DiagFrameOK == (Rec.op = "diag" /\ Done /\ Has("p1")) => Rec.p1 = Rec.p
\* causal mode: only qubits i0.. are touched; the part of the operator supported there becomes Z_i0
CausalOK == (Rec.op = "diag" /\ Done /\ Rec.causal = TRUE) =>
    LET P == Dec(Rec.p)  n == NQ(P)  i0 == Rec.i0
        tail == [s |-> [q \in 1..n |-> IF q >= i0 THEN P.s[q] ELSE 0], k |-> 0] IN
    /\ \A j \in 1..Len(Gates) : \A a \in 1..Len(Gates[j].qs) : Gates[j].qs[a] >= i0
    /\ \A q \in 1..i0 - 1 : Forward(Gates, XOp(q, n)) = XOp(q, n) /\ Forward(Gates, ZOp(q, n)) = ZOp(q, n)
    /\ (~IsId(tail)) => PlusMinusZ(Forward(Gates, tail), i0, n)
\* non-causal mode on a non-identity operator (identity has no circuit that could work)
\* kernels behind it
\* (the value on the identity, which has no non-trivial qubit, is not constrained)
FrontOK == (Rec.op = "front" /\ Done /\ ~IsId(Dec(Rec.p))) =>
    LET P == Dec(Rec.p) IN Rec.val = (CHOOSE q \in Supp(P) : \A r \in Supp(P) : q <= r)
CondenseOK == (Rec.op = "condense" /\ Done) =>
    LET P == Dec(Rec.p)  sup == Rec.qubits IN
    /\ {sup[a] : a \in 1..Len(sup)} = Supp(P) /\ \A a \in 1..Len(sup) - 1 : sup[a] < sup[a + 1]
    /\ Rec.letters = [a \in 1..Len(sup) |-> P.s[sup[a]]]
OnsiteOK == (Rec.op = "onsite" /\ Done) => Rec.val = (Supp(Dec(Rec.p)) \subseteq {Rec.i0})
\* pauli_diagonalize2: sign-free rotations bring an anticommuting pair to (Z, X or Y) on qubit i0
RotSP(G, P) == [Rot(G, P) EXCEPT !.k = 0]
RECURSIVE RotSeqSP(_, _, _)
RotSeqSP(gens, P, j) == IF j > Len(gens) THEN P ELSE RotSeqSP(gens, RotSP(Dec(gens[j]), P), j + 1)
Diag2OK == (Rec.op = "diag2" /\ Done) =>
    LET g1 == Dec(Rec.g1)  g2 == Dec(Rec.g2)  n == NQ(g1) IN
    /\ RotSeqSP(Rec.gens, g1, 1) = ZOp(Rec.i0, n) /\ Dec(Rec.out1) = ZOp(Rec.i0, n)
    /\ Dec(Rec.out2) = RotSeqSP(Rec.gens, g2, 1)
    /\ Supp(Dec(Rec.out2)) = {Rec.i0} /\ Dec(Rec.out2).s[Rec.i0] \in {1, 2}

\* L2 conformance (model drift, never a verdict): the transcribed case analysis of DiagAlg.tla returns the very
\* generators the library returned
Drift_Diag2 == (Rec.op = "diag2" /\ Done) =>
    LET d == Diag2Impl(BitsOf(Dec(Rec.g1)), BitsOf(Dec(Rec.g2)), Rec.i0) IN
    [j \in 1..Len(Rec.gens) |-> BitsOf(Dec(Rec.gens[j]))] = d.gens
Drift_Diag1 == (Rec.op = "diag" /\ Done /\ Rec.causal = FALSE) =>
    LET gens == Diag1Impl(BitsOf(Dec(Rec.p)), Rec.i0) IN
    /\ Len(gens) = Len(Rec.gates)
    /\ \A j \in 1..Len(gens) : Sigma(gens[j], 0) = Place(Dec(Rec.gates[j].g), Rec.gates[j].qs, NQ(Dec(Rec.p)))
\* diagonalize(state): forward decodes to |0..0>, backward re-encodes
TRw(t) == DecRows(t.rows)
StateDiagOK == (Rec.op = "diagstate" /\ Done) =>
    LET n == Len(Rec.pre.rows) \div 2 IN
    /\ TableauOK(TRw(Rec.fwd), Rec.fwd.r) /\ Grp(TRw(Rec.fwd), Rec.fwd.r) = ZeroGroup(n) /\ Rec.fwd.r = 0
    /\ TableauOK(TRw(Rec.bwd), Rec.bwd.r) /\ Grp(TRw(Rec.bwd), Rec.bwd.r) = Grp(TRw(Rec.pre), Rec.pre.r)

\* ... on registers too wide to enumerate the group: |0..0> is recognised row by row (a valid pure tableau whose
\* stabilizer rows are +Z-only strings generates exactly the group of |0..0>); the re-encoded state is a valid pure
\* tableau all of whose stabilizers commute with all stabilizers of the input (equal groups up to signs), and
\* (model drift) it is the input row by row
ZOnlyPlus(P) == P.k = 0 /\ \A q \in 1..NQ(P) : P.s[q] \in {0, 3}
WideStateDiagOK == (Rec.op = "widediagstate" /\ Done) =>
    LET n == Len(Rec.wpre.rows) \div 2  F == TRw(Rec.wfwd)  B == TRw(Rec.wbwd)  P0 == TRw(Rec.wpre) IN
    /\ Rec.wfwd.r = 0 /\ TableauOK(F, 0) /\ \A j \in 1..n : ZOnlyPlus(F[j])
    /\ Rec.wbwd.r = 0 /\ TableauOK(B, 0) /\ \A i, j \in 1..n : ~Anti(B[i], P0[j])
    /\ Rec.wpre1 = Rec.wpre
Drift_WideStateDiag == (Rec.op = "widediagstate" /\ Done) => Rec.wbwd.rows = Rec.wpre.rows
\* SBRG: effective Hamiltonian of I/Z strings only; for commuting input the circuit maps H exactly onto it
DecT(w) == [p |-> Dec(w[1]), c |-> <<w[2], w[3]>>, e |-> w[4]]
Terms(ws) == [j \in 1..Len(ws) |-> DecT(ws[j])]
AllCommute(x) == \A i, j \in 1..Len(x) : ~Anti(x[i].p, x[j].p)
\* coefficients are exact dyadics within the record's scale (inexact floats are recorded with exponent 99)
WFT(ws) == \A j \in 1..Len(ws) : ws[j][4] \in 0..Rec.E
\* (required only for commuting Hamiltonians, whose coefficients are merely carried along; the perturbative
\* step for non-commuting terms divides by arbitrary leading coefficients and is outside the exact model)
SBRGWellFormedOK == (Rec.op = "sbrg" /\ Done /\ Rec.commuting = TRUE) => WFT(Rec.h) /\ WFT(Rec.heff) /\ (Has("fwd") => WFT(Rec.fwd))
SBRGDiagOK == (Rec.op = "sbrg" /\ Done) =>
    LET heff == Terms(Rec.heff) IN \A j \in 1..Len(heff) : \A q \in 1..NQ(heff[j].p) : heff[j].p.s[q] \in {0, 3}
SBRGExactOK == (Rec.op = "sbrg" /\ Done /\ WFT(Rec.h) /\ WFT(Rec.heff) /\ (Has("fwd") => WFT(Rec.fwd))) =>
    LET H == Terms(Rec.h)  heff == Terms(Rec.heff)
        img == [j \in 1..Len(H) |-> [H[j] EXCEPT !.p = Forward(Gates, @)]] IN
    /\ \A j \in 1..Len(Gates) : Herm(Gates[j].g)
    /\ AllCommute(H) => DenEq(img, heff, Rec.E)
    \* and the circuit really does what its gate list says (recorded forward image of H)
    /\ Has("fwd") => Terms(Rec.fwd) = img
NoCrash18 == ~Has("exc")
=============================================================================
