CONSTANTS N = 5
 WITHMZ = TRUE
INIT Init
NEXT SimNext
INVARIANT Legal
ACTION_CONSTRAINT EmitSim
