INIT Init
NEXT Next
INVARIANT NoCrashK
INVARIANT LayoutOK
INVARIANT TrajOK
INVARIANT TrajBackOK
INVARIANT PostselectOK
INVARIANT WideTrajBackOK
INVARIANT Drift_Packing
INVARIANT Drift_CircuitRepr
