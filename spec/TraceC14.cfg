INIT Init
NEXT Next
INVARIANT NoCrashK
INVARIANT LayoutOK
INVARIANT TrajOK
INVARIANT TrajBackOK
INVARIANT PostselectOK
INVARIANT WideTrajBackOK
