CONSTANTS MAXLEN = 7
INIT Init
NEXT Next
INVARIANT EmitProg
