------------------------------ MODULE MC_Tableau ------------------------------
(***************************************************************************)
(* C05 / C06 / C07 / C14 at the implementation level: the transcribed      *)
(* tableau algorithms run from the maximally mixed tableau under every     *)
(* rotation, every measurement with both coins, and every post-selection.  *)
(* TLC reaches the complete valid tableau space (N=1: 48, N=2: 34560) and  *)
(* checks on every state / edge:                                           *)
(*   TableauOK, DensityOK                 (C05)                            *)
(*   ImplMeasure refines SemMeasure       (C06)                            *)
(*   ImplExpect = Expect, ImplProjTrace   (C07)                            *)
(*   ImplEntropy = Entropy                 (C08)                            *)
(*   ImplPostselect refines post-selection (C14)                           *)
(***************************************************************************)
EXTENDS Tableau, TLC
CONSTANTS N
VARIABLES rows, r, lbl
HermOps == HermSet(N)
Gens == {G \in HermOps : ~IsId(G)}
Init == /\ rows = [j \in 1..2 * N |-> IF j <= N THEN ZOp(j, N) ELSE XOp(j - N, N)]
        /\ r = N /\ lbl = <<"init">>
Rotate(G) == rows' = ImplRotate(rows, G) /\ r' = r /\ lbl' = <<"rot", G>>
Measure(O, coin) == LET m == ImplMeasure1(rows, r, O, coin) IN
                    /\ rows' = m.rows /\ r' = m.r /\ lbl' = <<"measure", O, m.out, m.und, m.eig>>
Next == (\E G \in Gens : Rotate(G)) \/ (\E O \in HermOps : \E c \in 0..1 : Measure(O, c))
View == <<rows, r>>

Valid == TableauOK(rows, r) /\ DensityOK(rows, r)
\* every measurement edge refines the signed-group semantics
RefMeasure == [][lbl'[1] = "measure" =>
    LET sem == SemMeasure(Grp(rows, r), lbl'[2], lbl'[3]) IN
    /\ sem.ok /\ sem.und = lbl'[4] /\ lbl'[5]
    /\ Grp(rows', r') = sem.S]_<<rows, r, lbl>>
RefRotate == [][lbl'[1] = "rot" => Grp(rows', r') = RotGroup(lbl'[2], Grp(rows, r)) /\ r' = r]_<<rows, r, lbl>>
\* queries, evaluated in every reachable tableau
ExpectRefines == \A O \in HermOps : ImplExpect1(rows, r, O) = Expect(Grp(rows, r), O)
ProjTraceRefines == \A O \in HermOps :
    LET t == ImplProjTrace1(rows, r, O)  S0 == Grp(rows, r) IN
    /\ TableauOK(t.rows, t.r)
    /\ t.f2 = (IF O \in S0 THEN 2 ELSE IF Neg(O) \in S0 THEN 0 ELSE 1)
    /\ t.f2 # 0 => Grp(t.rows, t.r) = SemMeasure(S0, O, 0).S
EntropyRefines == \A A \in SUBSET (1..N) : ImplEntropy(rows, r, A) = Entropy(Grp(rows, r), A)
PostselectRefines == r = 0 => \A O \in HermOps :
    LET t == ImplPostselect(rows, O)  S0 == Grp(rows, 0) IN
    /\ TableauOK(t.rows, 0)
    /\ t.p2 = (IF O \in S0 THEN 2 ELSE IF Neg(O) \in S0 THEN 0 ELSE 1)
    /\ Grp(t.rows, 0) = (IF t.p2 = 1 THEN SemMeasure(S0, O, 0).S ELSE S0)
=============================================================================
