CONSTANTS N = 6
 WITHMZ = TRUE
INIT Init
NEXT SimNext
INVARIANT Legal
ACTION_CONSTRAINT EmitSim
