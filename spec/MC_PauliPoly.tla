----------------------------- MODULE MC_PauliPoly -----------------------------
(***************************************************************************)
(* C15 model: (i) the polynomial algebra of PauliPoly is grounded in       *)
(* explicit matrices for a pool of N = 2 operands (ASSUMEs); (ii) a typed  *)
(* stack machine enumerates every well-typed expression with at most two   *)
(* binary operators plus unary wrappers over the operand pool; every       *)
(* complete expression is emitted and evaluated by the driver with the     *)
(* library's real operators.                                               *)
(***************************************************************************)
EXTENDS PauliPoly, GaussMat, TLC
CONSTANTS MAXLEN
VARIABLES stack, prog
N == 2

\* ---- operand pool: <<type, terms>>; K = plain number (terms hold c * identity)
T(s, k, re, im, e) == [p |-> [s |-> s, k |-> k], c |-> <<re, im>>, e |-> e]
Pool == <<
  <<"P", <<T(<<1, 3>>, 0, 1, 0, 0)>>>>,                                   \*  XZ
  <<"P", <<T(<<2, 2>>, 1, 1, 0, 0)>>>>,                                   \* i YY
  <<"P", <<T(<<0, 0>>, 3, 1, 0, 0)>>>>,                                   \* -i II
  <<"M", <<T(<<3, 0>>, 3, 1, 2, 1)>>>>,                                   \* (1+2i)/2 * (-i) ZI
  <<"M", <<T(<<1, 3>>, 0, -3, 0, 2)>>>>,                                  \* -3/4 XZ
  <<"Q", <<T(<<1, 3>>, 0, 1, 0, 0), T(<<1, 3>>, 2, 1, 0, 1), T(<<0, 0>>, 1, 0, 1, 0), T(<<2, 1>>, 3, 2, -1, 2)>>>>,
  <<"Q", <<T(<<3, 3>>, 0, 1, 0, 0), T(<<0, 3>>, 0, -1, 0, 0), T(<<3, 0>>, 1, 0, 3, 1)>>>>,
  <<"Q", <<T(<<2, 2>>, 0, 1, 0, 0), T(<<2, 2>>, 2, 1, 0, 0)>>>>,          \* cancels to zero
  <<"L", <<T(<<1, 1>>, 0, 1, 0, 0), T(<<0, 2>>, 3, 1, 0, 0)>>>>,          \* list [XX, -i IY]
  <<"K", <<T(<<0, 0>>, 0, 1, 0, 1)>>>>,                                   \* 1/2 (divisors must keep coefficients dyadic)
  <<"K", <<T(<<0, 0>>, 0, 0, -2, 0)>>>>,                                  \* -2i
  <<"K", <<T(<<0, 0>>, 0, 0, 1, 0)>>>>,                                   \* i
  <<"K", <<T(<<0, 0>>, 0, -1, 0, 0)>>>> >>                                \* -1
Units == {12, 13}                                                        \* pool indices of the units i, -1
Alg == {"P", "M", "Q"}

\* ---- grounding of the algebra in matrices (scale E = 6)
MatOf(x, E) == LET RECURSIVE S(_)
                   S(j) == IF j = 0 THEN MZero(Dim(N))
                           ELSE MAdd(S(j - 1), MGScale(TermCoef(x[j], E), Mat([x[j].p EXCEPT !.k = 0])))
               IN S(Len(x))
Ops == {Pool[j][2] : j \in 1..9}
E0 == 6
ASSUME AddGround == \A x, y \in Ops : MatOf(PAdd(x, y), E0) = MAdd(MatOf(x, E0), MatOf(y, E0))
ASSUME NegGround == \A x \in Ops : MatOf(PNeg(x), E0) = MNeg(MatOf(x, E0))
\* product: scales multiply, so compare at 2 * E0 on the right
ASSUME MulGround == \A x, y \in Ops : MatOf(PMul(x, y), 2 * E0) = MatMul(MatOf(x, E0), MatOf(y, E0))
ASSUME TraceGround == \A x \in Ops : Tr(MatOf(x, E0)) = PTrace(x, N, E0)
ASSUME DenEqGround == \A x, y \in Ops : DenEq(x, y, E0) <=> (MatOf(x, E0) = MatOf(y, E0))
ASSUME ScaleGround == \A x \in Ops : \A k \in 10..13 :
    MatOf(PScale(Pool[k][2][1], x), E0) = MGScale(GS(2 ^ (0), TermCoef(Pool[k][2][1], 1)), MGScale(<<1, 0>>, MatOf(x, E0 - 1)))
ASSUME RotLinear == \A x \in Ops : \A G \in {[s |-> <<1, 2>>, k |-> 0], [s |-> <<3, 0>>, k |-> 2]} :
    Len(PRot(G, x)) = Len(x) /\ \A j \in 1..Len(x) : PRot(G, x)[j].c = x[j].c

\* ---- typed stack machine
ResAdd(a, b) == IF a \in Alg /\ b \in Alg \cup {"L", "K"} THEN "Q"
                ELSE IF a = "K" /\ b \in Alg THEN "Q" ELSE "none"
ResMat(a, b) == IF a = "P" /\ b = "P" THEN "P"
                ELSE IF a \in Alg /\ b \in Alg THEN "Q"
                ELSE IF a \in Alg /\ b \in {"L", "K"} THEN "refuse" ELSE "none"
\* K * x  (unit: the number is 1, -1, i or -i)
ResMul(unit, b) == IF b = "P" THEN (IF unit THEN "P" ELSE "M") ELSE IF b = "M" THEN "M" ELSE IF b = "Q" THEN "Q"
                   ELSE IF b = "L" THEN (IF unit THEN "L" ELSE "refuse") ELSE "none"
Init == stack = <<>> /\ prog = <<>>
Push(i) == /\ Len(stack) < 3 /\ stack' = Append(stack, <<Pool[i][1], i \in Units>>) /\ prog' = Append(prog, <<"push", i>>)
Top == stack[Len(stack)]
Sec == stack[Len(stack) - 1]
Pop2(r) == Append(SubSeq(stack, 1, Len(stack) - 2), <<r, FALSE>>)
Bin(op) == /\ Len(stack) >= 2
           /\ LET a == Sec[1]  b == Top[1]
                  r == CASE op = "add" -> ResAdd(a, b)
                         [] op = "sub" -> IF a = "K" THEN "none" ELSE ResAdd(a, b)      \* number - object is not defined
                         [] op = "matmul" -> ResMat(a, b)
                         [] op = "mul" -> IF a = "K" THEN ResMul(Sec[2], b) ELSE "none"
                         [] OTHER -> IF b = "K" THEN ResMul(Top[2], a) ELSE "none"      \* div: x / K
              IN /\ r # "none"
                 /\ stack' = Pop2(r) /\ prog' = Append(prog, <<op, 0>>)
Un(op) == /\ Len(stack) >= 1 /\ Top[1] \notin {"refuse", "K", "N"}
          /\ prog # <<>> /\ prog[Len(prog)][1] \notin {"neg", "reduce", "copy"}          \* no stacked wrappers
          /\ (op = "reduce" => Top[1] = "Q")
          /\ stack' = [stack EXCEPT ![Len(stack)] = <<IF op = "trace" THEN "N" ELSE Top[1], FALSE>>]
          /\ prog' = Append(prog, <<op, 0>>)
Live == Len(prog) < MAXLEN /\ (IF stack = <<>> THEN TRUE ELSE Top[1] \notin {"refuse", "N"})
Next == Live /\ (\/ \E i \in 1..Len(Pool) : Push(i)
                 \/ \E op \in {"add", "sub", "matmul", "mul", "div"} : Bin(op)
                 \/ \E op \in {"neg", "reduce", "trace", "copy"} : Un(op))
Complete == Len(stack) = 1 /\ Len(prog) >= 2
EmitPool == \A i \in 1..Len(Pool) : PrintT(ToString(<<"O", i, Pool[i][1],
    [j \in 1..Len(Pool[i][2]) |-> <<Enc(Pool[i][2][j].p), Pool[i][2][j].c[1], Pool[i][2][j].c[2], Pool[i][2][j].e>>]>>))
ASSUME EmitPool
EmitProg == Complete => PrintT(ToString(<<"X", prog, stack[1][1]>>))
=============================================================================
