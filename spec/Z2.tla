---------------------------------- MODULE Z2 ----------------------------------
(***************************************************************************)
(* L2: GF(2) linear algebra of pyclifford/utils.py -- z2rank (Gaussian     *)
(* elimination with row swaps and early exit) and z2inv (Gauss-Jordan on   *)
(* the augmented matrix, raising on a missing pivot) -- transcribed loop   *)
(* by loop.  Matrices are sequences of rows of bits.  MC_Z2 proves them    *)
(* against the definitions (dimension of the row space; a * a^-1 = 1) for  *)
(* all matrices up to 4 x 4.                                               *)
(***************************************************************************)
EXTENDS Naturals, Sequences, FiniteSets

NR(m) == Len(m)
NC(m) == IF Len(m) = 0 THEN 0 ELSE Len(m[1])
XorRow(a, b, from) == [j \in 1..Len(a) |-> IF j >= from THEN (a[j] + b[j]) % 2 ELSE a[j]]
SwapRowsFrom(m, r, k, from) ==
    [i \in 1..Len(m) |-> IF i = r THEN [j \in 1..Len(m[r]) |-> IF j >= from THEN m[k][j] ELSE m[r][j]]
                         ELSE IF i = k THEN [j \in 1..Len(m[k]) |-> IF j >= from THEN m[r][j] ELSE m[k][j]]
                         ELSE m[i]]
FirstBelow(m, r, i) == IF \E k \in r + 1..NR(m) : m[k][i] = 1
                       THEN CHOOSE k \in r + 1..NR(m) : m[k][i] = 1 /\ \A k2 \in r + 1..k - 1 : m[k2][i] = 0
                       ELSE 0
Eliminate(m, r, i, lo, hi) == [a \in 1..NR(m) |-> IF a >= lo /\ a <= hi /\ a # r /\ m[a][i] = 1 THEN XorRow(m[a], m[r], i) ELSE m[a]]

\* z2rank: r = rows placed so far (0-based count), i = current column (1-based)
RECURSIVE RankLoop(_, _, _)
RankLoop(m, r, i) ==
    IF i > NC(m) THEN r
    ELSE IF r = NR(m) THEN r                                        \* rows exhausted: early return
    ELSE IF m[r + 1][i] = 0
         THEN LET k == FirstBelow(m, r + 1, i) IN
              IF k = 0 THEN RankLoop(m, r, i + 1)                   \* no pivot in this column
              ELSE LET m1 == SwapRowsFrom(m, r + 1, k, i) IN RankLoop(Eliminate(m1, r + 1, i, r + 2, NR(m)), r + 1, i + 1)
         ELSE RankLoop(Eliminate(m, r + 1, i, r + 2, NR(m)), r + 1, i + 1)
Z2RankImpl(m) == IF NR(m) = 0 THEN 0 ELSE RankLoop(m, 0, 1)

\* definition: log2 of the size of the row space
RECURSIVE SpanRows(_, _)
SpanRows(m, j) == IF j = 0 THEN {[c \in 1..NC(m) |-> 0]}
                  ELSE LET S == SpanRows(m, j - 1) IN S \cup {[c \in 1..NC(m) |-> (s[c] + m[j][c]) % 2] : s \in S}
RECURSIVE Lg(_)
Lg(x) == IF x <= 1 THEN 0 ELSE 1 + Lg(x \div 2)
Z2RankDef(m) == IF NR(m) = 0 THEN 0 ELSE Lg(Cardinality(SpanRows(m, NR(m))))

\* z2inv on the augmented matrix a = [m | 1]; returns <<"ok", inverse>> or <<"raise">>
Augment(m) == LET n == NR(m) IN [i \in 1..n |-> [j \in 1..2 * n |-> IF j <= n THEN m[i][j] ELSE IF j - n = i THEN 1 ELSE 0]]
RECURSIVE FwdPass(_, _)
FwdPass(a, i) ==
    LET n == NR(a) IN
    IF i > n THEN <<"ok", a>>
    ELSE IF a[i][i] = 0
         THEN LET k == FirstBelow(a, i, i) IN
              IF k = 0 THEN <<"raise">>
              ELSE FwdPass(Eliminate(SwapRowsFrom(a, i, k, i), i, i, i + 1, n), i + 1)
         ELSE FwdPass(Eliminate(a, i, i, i + 1, n), i + 1)
RECURSIVE BwdPass(_, _)
BwdPass(a, i) == IF i <= 1 THEN a ELSE BwdPass(Eliminate(a, i, i, 1, i - 1), i - 1)
Z2InvImpl(m) == LET f == FwdPass(Augment(m), 1) IN
                IF f[1] = "raise" THEN <<"raise">>
                ELSE LET b == BwdPass(f[2], NR(m))  n == NR(m) IN <<"ok", [i \in 1..n |-> [j \in 1..n |-> b[i][j + n]]]>>
MatMul2(a, b) == LET n == NR(a) IN
    [i \in 1..n |-> [j \in 1..n |-> Cardinality({k \in 1..n : a[i][k] = 1 /\ b[k][j] = 1}) % 2]]
Ident(n) == [i \in 1..n |-> [j \in 1..n |-> IF i = j THEN 1 ELSE 0]]
=============================================================================
