------------------------------- MODULE Clifford -------------------------------
(***************************************************************************)
(* L1: Clifford maps as automorphisms of the Pauli group.                  *)
(* A map on n qubits is a sequence m of 2n operators: m[2i-1] is the image *)
(* of X_i and m[2i] the image of Z_i (the row order of CliffordMap.gs).    *)
(* Apply is the homomorphic extension, written with Mul only; the          *)
(* direction convention is "replace every generator by its listed image".  *)
(***************************************************************************)
EXTENDS PauliGroup

MapN(m) == Len(m) \div 2
Partner(a, b) == a # b /\ (a + 1) \div 2 = (b + 1) \div 2
ValidMap(m) == LET n == MapN(m) IN
    /\ Len(m) = 2 * n
    /\ \A j \in 1..2 * n : NQ(m[j]) = n /\ Herm(m[j])
    /\ \A a, b \in 1..2 * n : Anti(m[a], m[b]) = Partner(a, b)

IdMap(n) == [j \in 1..2 * n |-> IF j % 2 = 1 THEN XOp((j + 1) \div 2, n) ELSE ZOp(j \div 2, n)]

\* image of the one-letter operator l on qubit i  (Y_i = i X_i Z_i)
ImgLetter(m, i, l) == CASE l = 0 -> Id(MapN(m))
                        [] l = 1 -> m[2 * i - 1]
                        [] l = 3 -> m[2 * i]
                        [] OTHER -> Ph(Mul(m[2 * i - 1], m[2 * i]), 1)
RECURSIVE ApplyTo(_, _, _)
ApplyTo(m, s, j) == IF j = 0 THEN Id(MapN(m)) ELSE Mul(ApplyTo(m, s, j - 1), ImgLetter(m, j, s[j]))
Apply(m, P) == Ph(ApplyTo(m, P.s, NQ(P)), P.k)
ApplyL(m, Ps) == [j \in 1..Len(Ps) |-> Apply(m, Ps[j])]

\* a first, then b
Compose(a, b) == [j \in 1..Len(a) |-> Apply(b, a[j])]
RotMap(G) == LET n == NQ(G) IN [j \in 1..2 * n |-> Rot(G, IdMap(n)[j])]
IsInverse(a, b) == Compose(a, b) = IdMap(MapN(a)) /\ Compose(b, a) = IdMap(MapN(a))

\* embed a map ms on |qs| qubits (qs ascending sequence of qubits) into n wires
PosIn(qs, j) == CHOOSE a \in 1..Len(qs) : qs[a] = j
InQs(qs, j)  == \E a \in 1..Len(qs) : qs[a] = j
EmbedMap(ms, qs, n) ==
    [j \in 1..2 * n |->
        LET q == (j + 1) \div 2 IN
        IF InQs(qs, q) THEN Place(ms[2 * PosIn(qs, q) - (j % 2)], qs, n)
        ELSE IdMap(n)[j]]
\* the masked update of PauliList.transform_by: act on the columns of qs only
ApplyMasked(ms, qs, P) ==
    LET sub == Apply(ms, [Restrict(P, qs) EXCEPT !.k = 0]) IN
    [s |-> [j \in 1..NQ(P) |-> IF InQs(qs, j) THEN sub.s[PosIn(qs, j)] ELSE P.s[j]],
     k |-> (P.k + sub.k) % 4]
RotMasked(G, qs, P) == Rot(Place(G, qs, NQ(P)), P)

\* ---- wire format
DecM(ws) == [j \in 1..Len(ws) |-> Dec(ws[j])]
EncM(m)  == [j \in 1..Len(m) |-> Enc(m[j])]

\* ---- textbook gates (C11), defined by their conjugation tables U P U^dagger
P1(l, k) == [s |-> <<l>>, k |-> k]
P2(a, b, k) == [s |-> <<a, b>>, k |-> k]
GateH == <<P1(3, 0), P1(1, 0)>>          \* X -> Z, Z -> X
GateS == <<P1(2, 0), P1(3, 0)>>          \* X -> Y, Z -> Z
GateX == <<P1(1, 0), P1(3, 2)>>          \* X -> X, Z -> -Z
GateY == <<P1(1, 2), P1(3, 2)>>          \* X -> -X, Z -> -Z
GateZ == <<P1(1, 2), P1(3, 0)>>          \* X -> -X, Z -> Z
\* control = first qubit, target = second:  Xc -> Xc Xt, Zc -> Zc, Xt -> Xt, Zt -> Zc Zt
GateCNOT == <<P2(1, 1, 0), P2(3, 0, 0), P2(0, 1, 0), P2(3, 3, 0)>>
\* control = second qubit, target = first
GateCNOTrev == <<P2(1, 0, 0), P2(3, 3, 0), P2(1, 1, 0), P2(0, 3, 0)>>
=============================================================================
