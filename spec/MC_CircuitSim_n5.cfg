CONSTANTS N = 5
 WITHMZ = FALSE
INIT Init
NEXT SimNext
INVARIANT Legal
INVARIANT DenLayout
ACTION_CONSTRAINT EmitSim
