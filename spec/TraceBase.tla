------------------------------ MODULE TraceBase ------------------------------
(***************************************************************************)
(* M4: shared skeleton of the trace specifications.  A trace file is       *)
(* NDJSON; every line is a self-contained observation of one call of the   *)
(* real library (operation, arguments, projected pre/post state, return    *)
(* value or exception).  Records are independent, so the "behaviour" TLC   *)
(* explores is the set of initial states l \in 1..Len(Log): one per        *)
(* record; each named INVARIANT of the extending module is one clause of   *)
(* the property and is evaluated on every record (`-continue` lists all    *)
(* rejected records).                                                      *)
(***************************************************************************)
EXTENDS Naturals, Sequences, TLC, Json, IOUtils, API
VARIABLE l
Log  == ndJsonDeserialize(IOEnv.TRACE_FILE)
Rec  == Log[l]
Has(f) == f \in DOMAIN Rec
Init == l \in 1..Len(Log)
Next == UNCHANGED l
\* a call on well-formed input must not crash (explicit, documented refusals are
\* recorded as op-specific "refused" fields instead of "exc")
NoCrash == ~Has("exc")
\* op "refusal": one call from the refusal table of API.tla with the class of the exception raised ("none" if accepted).
\* Model drift, never a verdict (see API.tla).
Drift_Refusal == Rec.op = "refusal" => (Rec.raised = Refusal(Rec) /\ RefusalClean(Rec))
=============================================================================
