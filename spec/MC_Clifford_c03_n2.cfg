CONSTANTS N = 2
 GROUND = FALSE
 HOMFULL = FALSE
 EMITEDGES = FALSE
INIT Init
NEXT Next
VIEW View
INVARIANT Valid
INVARIANT FixesGenerators
INVARIANT Homomorphism
INVARIANT PhaseLinear
INVARIANT Preserves
INVARIANT PreservesHerm
INVARIANT TransformRefines
INVARIANT EmitState
PROPERTY EdgeIsConjugation
