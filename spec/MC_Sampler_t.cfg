CONSTANTS NMAX = 3
 FULL2 = TRUE
INIT Init
NEXT Next
