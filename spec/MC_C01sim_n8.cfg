CONSTANTS N = 8
INIT Init
NEXT SimNext
ACTION_CONSTRAINT EmitSim
