CONSTANTS MAXLEN = 5
INIT Init
NEXT Next
INVARIANT EmitProg
