------------------------------- MODULE TraceC19 -------------------------------
(* Trace specification for C19: sampling from the stabilizer group, the      *)
(* density-matrix expansion, binary_repr, and classical-shadow snapshots.    *)
EXTENDS Circuit, StabSem, TraceBase

TRows(t) == DecRows(t.rows)
TOK(t)  == TableauOK(TRows(t), t.r) /\ DensityOK(TRows(t), t.r)
TGrp(t) == Grp(TRows(t), t.r)
Done == ~Has("exc")

\* sampled operators are elements of the group with the right sign (expectation +1)
SampleOK == (Rec.op = "sample" /\ Done) =>
    LET S0 == TGrp(Rec.pre) IN
    /\ Len(Rec.samples) = Rec.L
    /\ \A j \in 1..Len(Rec.samples) : Dec(Rec.samples[j]) \in S0
    /\ Rec.pre1 = Rec.pre
\* uniform over the group: every element reached, chi-square within 8 sigma (fixed seeds)
SampleDistOK == (Rec.op = "sampledist" /\ Done) =>
    /\ Rec.expect = Cardinality(TGrp(Rec.pre)) /\ Rec.support = Rec.expect
    /\ Rec.chi2m <= 1000 * Rec.dof + Rec.slackm
    /\ LET s == Rec.slackm \div 1000 IN s * s >= 128 * Rec.dof /\ (s - 1) * (s - 1) < 128 * Rec.dof
\* wide registers (N - r >= 64: beyond one machine word of coin bits): the state is the product state with signed
\* stabilizers (-1)^sign[q] Z_q on the qubits q > r.  Every sample is a Z-string on those qubits whose sign is the
\* product of the signs of its factors, and every generator is included in about half of the L samples
\* (independent fair coins: count within L/2 +- 4 sqrt(L), i.e. 8 sigma; fixed seeds)
WideSampleOK == (Rec.op = "widesample" /\ Done) =>
    LET n == Rec.n  L == Len(Rec.samples)
        Cnt(q) == Cardinality({j \in 1..L : Rec.samples[j][q] = 3})
        Par(w) == Cardinality({q \in 1..n : w[q] = 3 /\ Rec.sign[q] = 1}) % 2 IN
    /\ L = Rec.L
    /\ \A j \in 1..L : LET w == Rec.samples[j] IN
          /\ Len(w) = n + 1 /\ \A q \in 1..n : w[q] \in {0, 3} /\ (q <= Rec.r => w[q] = 0)
          /\ w[n + 1] = 2 * Par(w)
    /\ \A q \in Rec.r + 1..n : LET d == 2 * Cnt(q) - L IN d * d <= 64 * L
\* density matrix: every group element exactly once, weight 2^-N
DensityExpOK == (Rec.op = "density" /\ Done) =>
    LET S0 == TGrp(Rec.pre)  n == Len(Rec.pre.rows) \div 2 IN
    /\ Len(Rec.terms) = Cardinality(S0)
    /\ \A j \in 1..Len(Rec.terms) :
          /\ Dec(Rec.terms[j][1]) \in S0
          /\ Rec.terms[j][3] = 0 /\ Rec.terms[j][2] * (2 ^ n) = 2 ^ Rec.terms[j][4]     \* coefficient = 2^-n
    /\ \A i, j \in 1..Len(Rec.terms) : i # j => Rec.terms[i][1] # Rec.terms[j][1]
    /\ Rec.pre1 = Rec.pre
\* binary_repr: most significant bit first, fixed width
BitAt(x, w, j) == (x \div (2 ^ (w - j))) % 2
BinReprOK == (Rec.op = "binrepr" /\ Done) =>
    /\ Len(Rec.bits) = Len(Rec.ints)
    /\ \A i \in 1..Len(Rec.ints) : Rec.bits[i] = [j \in 1..Rec.width |-> BitAt(Rec.ints[i], Rec.width, j)]
\* classical shadow: snapshot = base state measured in the back-evolved basis; base untouched
SnapshotOK == (Rec.op = "shadow" /\ Done) =>
    LET B == TGrp(Rec.base)  S1 == TGrp(Rec.snap)
        n == Len(Rec.povm.rows) \div 2
        gens == [j \in 1..n - Rec.povm.r |-> TRows(Rec.povm)[Rec.povm.r + j]] IN
    /\ TOK(Rec.snap) /\ TOK(Rec.povm)
    /\ Rec.base1 = Rec.base
    /\ OverlapNum(B, S1) > 0
    /\ \A j \in 1..Len(gens) : Strip(gens[j]) \in S1 \/ Neg(Strip(gens[j])) \in S1
    /\ \E outs \in [1..Len(gens) -> 0..1] :
          LET sem == SemMeasureList(B, gens, outs, Len(gens)) IN sem.ok /\ sem.S = S1
\* ... and for a circuit of known gates (records carrying the program the circuit consists of AT THE TIME of the call,
\* whatever was compiled, sampled, copied or appended before): the measurement basis is the computational basis
\* evolved backward through exactly that program -- every U^-1 Z_q U stabilizes the prior POVM state
PovmOK == (Rec.op = "shadow" /\ Done /\ Has("prog")) =>
    LET n == Len(Rec.povm.rows) \div 2  prog == DecProg(Rec.prog) IN
    /\ Rec.povm.r = 0 /\ TOK(Rec.povm)
    /\ \A q \in 1..n : Backward(prog, ZOp(q, n)) \in TGrp(Rec.povm)
NoCrash19 == ~Has("exc")
=============================================================================
