CONSTANTS N = 2
 GROUND = TRUE
 ASSOC = TRUE
INIT Init
NEXT Next
INVARIANT TypeOK
VIEW View
ACTION_CONSTRAINT Emit
