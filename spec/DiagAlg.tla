------------------------------- MODULE DiagAlg -------------------------------
(***************************************************************************)
(* L2: pauli_diagonalize1 / pauli_diagonalize2 / clifford_rotate_signless  *)
(* of pyclifford/utils.py on bit vectors (sign-free), transcribed branch   *)
(* by branch.  i0 is 1-based here.  MC_DiagAlg proves the postconditions   *)
(* for every string / anticommuting pair (N <= 3).                         *)
(***************************************************************************)
EXTENDS BinaryRep

XB(g, i) == g[2 * i - 1]
ZB(g, i) == g[2 * i]
SetBit(g, j, b) == [g EXCEPT ![j] = b]
NQB(g) == Len(g) \div 2
IsOnsite(g, i0) == \A i \in 1..NQB(g) : i # i0 => (XB(g, i) = 0 /\ ZB(g, i) = 0)
FrontQ(g) == IF \E i \in 1..NQB(g) : XB(g, i) # 0 \/ ZB(g, i) # 0
             THEN CHOOSE i \in 1..NQB(g) : (XB(g, i) # 0 \/ ZB(g, i) # 0) /\ \A j \in 1..i - 1 : XB(g, j) = 0 /\ ZB(g, j) = 0
             ELSE NQB(g)
\* XYZ cycle on qubit i:  x <- x+z ; z <- z+x(new)
Cycle(g, i) == LET x1 == (XB(g, i) + ZB(g, i)) % 2 IN SetBit(SetBit(g, 2 * i - 1, x1), 2 * i, (ZB(g, i) + x1) % 2)
RotS(g, v) == IF AcqImpl(g, v) = 1 THEN Xor(v, g) ELSE v            \* clifford_rotate_signless on one row

\* first stage shared by diagonalize1 and diagonalize2: bring g1 to Z_i0; returns [gens, g1, g2]
ToZ(g1, g2, i0) ==
    IF IsOnsite(g1, i0) /\ XB(g1, i0) = 0 THEN [gens |-> <<>>, g1 |-> g1, g2 |-> g2]
    ELSE LET s1 == IF XB(g1, i0) = 0
                   THEN LET ga == IF ZB(g1, i0) = 0 THEN Cycle(g1, FrontQ(g1)) ELSE g1
                            g == SetBit(ga, 2 * i0 - 1, 1)
                        IN [gens |-> <<g>>, g1 |-> Xor(g1, g), g2 |-> RotS(g, g2)]
                   ELSE [gens |-> <<>>, g1 |-> g1, g2 |-> g2]
             gb == SetBit(s1.g1, 2 * i0, (ZB(s1.g1, i0) + 1) % 2)
         IN [gens |-> Append(s1.gens, gb), g1 |-> Xor(s1.g1, gb), g2 |-> RotS(gb, s1.g2)]
Diag1Impl(g1, i0) == ToZ(g1, g1, i0).gens
Diag2Impl(g1, g2, i0) ==
    LET a == ToZ(g1, g2, i0) IN
    IF IsOnsite(a.g2, i0) THEN a
    ELSE LET g == SetBit(SetBit(a.g2, 2 * i0 - 1, 0), 2 * i0, 1) IN
         [gens |-> Append(a.gens, g), g1 |-> a.g1, g2 |-> Xor(a.g2, g)]
RECURSIVE RotSeqS(_, _, _)
RotSeqS(gens, v, j) == IF j > Len(gens) THEN v ELSE RotSeqS(gens, RotS(gens[j], v), j + 1)
ZVec(i0, n) == [j \in 1..2 * n |-> IF j = 2 * i0 THEN 1 ELSE 0]
IsZero(g) == \A j \in 1..Len(g) : g[j] = 0
=============================================================================
