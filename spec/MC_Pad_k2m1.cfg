CONSTANTS K = 2
M = 1
INIT Init
NEXT Next
