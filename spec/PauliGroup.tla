------------------------------ MODULE PauliGroup ------------------------------
(***************************************************************************)
(* L1: the N-qubit Pauli group written as textbook algebra.                *)
(*                                                                         *)
(* A Pauli operator is a record [s |-> <<l_1..l_n>>, k |-> 0..3] and       *)
(* denotes the matrix  i^k * l_1 (x) l_2 (x) ... (x) l_n  with *Hermitian* *)
(* letters 0 = I, 1 = X, 2 = Y, 3 = Z (qubit 1 is the left-most tensor     *)
(* factor).  Nothing here uses the library's binary tricks (ipow, x.z      *)
(* corrections ...): products are computed letter by letter from the       *)
(* one-qubit multiplication table, which module GaussMat grounds in        *)
(* explicit complex matrices.  All operators take the number of qubits     *)
(* from their operands, so one TLC run can judge records of mixed N.       *)
(***************************************************************************)
EXTENDS Naturals, Integers, Sequences, FiniteSets

Letters == 0..3

\* one-qubit product  a . b = i^e * c  returned as <<c, e>>
M1(a, b) ==
    IF a = 0 THEN <<b, 0>> ELSE IF b = 0 THEN <<a, 0>> ELSE IF a = b THEN <<0, 0>>
    ELSE IF a = 1 /\ b = 2 THEN <<3, 1>>      \* X.Y =  iZ
    ELSE IF a = 2 /\ b = 3 THEN <<1, 1>>      \* Y.Z =  iX
    ELSE IF a = 3 /\ b = 1 THEN <<2, 1>>      \* Z.X =  iY
    ELSE IF a = 2 /\ b = 1 THEN <<3, 3>>      \* Y.X = -iZ
    ELSE IF a = 3 /\ b = 2 THEN <<1, 3>>      \* Z.Y = -iX
    ELSE                        <<2, 3>>      \* X.Z = -iY

RECURSIVE PhSum(_, _, _)
PhSum(s, t, n) == IF n = 0 THEN 0 ELSE M1(s[n], t[n])[2] + PhSum(s, t, n - 1)

NQ(P)      == Len(P.s)
PauliSet(n) == [s : [1..n -> Letters], k : 0..3]
HermSet(n)  == [s : [1..n -> Letters], k : {0, 2}]
Strings(n)  == [s : [1..n -> Letters], k : {0}]
Id(n)      == [s |-> [i \in 1..n |-> 0], k |-> 0]
IsId(P)    == \A i \in 1..NQ(P) : P.s[i] = 0
Ph(P, e)   == [P EXCEPT !.k = (@ + e) % 4]        \* multiply by i^e
Neg(P)     == Ph(P, 2)
Herm(P)    == P.k \in {0, 2}
Supp(P)    == {i \in 1..NQ(P) : P.s[i] # 0}
Weight(P)  == Cardinality(Supp(P))

Mul(P, Q)  == [s |-> [i \in 1..NQ(P) |-> M1(P.s[i], Q.s[i])[1]],
               k |-> (P.k + Q.k + PhSum(P.s, Q.s, NQ(P))) % 4]

\* P and Q anticommute iff they differ non-trivially on an odd number of qubits
Anti(P, Q) == Cardinality({i \in 1..NQ(P) : P.s[i] # 0 /\ Q.s[i] # 0 /\ P.s[i] # Q.s[i]}) % 2 = 1
AntiBit(P, Q) == IF Anti(P, Q) THEN 1 ELSE 0

\* U^dagger P U  for  U = exp(i pi/4 G) = (1 + iG)/sqrt 2,  G Hermitian:
\*   P if [G,P] = 0,   i P G   otherwise       (grounded in GaussMat)
Rot(G, P)  == IF Anti(G, P) THEN Ph(Mul(P, G), 1) ELSE P

\* ordered product of a sequence of operators on n qubits
RECURSIVE ProdSeq(_, _)
ProdSeq(ops, n) == IF Len(ops) = 0 THEN Id(n)
                   ELSE Mul(ProdSeq(SubSeq(ops, 1, Len(ops) - 1), n), ops[Len(ops)])

\* single-qubit generators as n-qubit operators
XOp(i, n) == [s |-> [j \in 1..n |-> IF j = i THEN 1 ELSE 0], k |-> 0]
ZOp(i, n) == [s |-> [j \in 1..n |-> IF j = i THEN 3 ELSE 0], k |-> 0]
YOp(i, n) == [s |-> [j \in 1..n |-> IF j = i THEN 2 ELSE 0], k |-> 0]

\* restriction of P to a set of qubits given as an ascending sequence qs
Restrict(P, qs) == [s |-> [j \in 1..Len(qs) |-> P.s[qs[j]]], k |-> P.k]
\* place an operator G on |qs| qubits into an n-qubit register on qubits qs
Place(G, qs, n) == [s |-> [j \in 1..n |-> IF \E a \in 1..Len(qs) : qs[a] = j
                                          THEN G.s[CHOOSE a \in 1..Len(qs) : qs[a] = j] ELSE 0],
                    k |-> G.k]

\* wire format: <<l_1, ..., l_n, k>>
Dec(a)     == [s |-> SubSeq(a, 1, Len(a) - 1), k |-> a[Len(a)]]
Enc(P)     == Append(P.s, P.k)
DecL(as)   == [j \in 1..Len(as) |-> Dec(as[j])]
EncL(Ps)   == [j \in 1..Len(Ps) |-> Enc(Ps[j])]
WellFormed(a, n) == Len(a) = n + 1 /\ (\A j \in 1..n : a[j] \in Letters) /\ a[n + 1] \in 0..3
=============================================================================
