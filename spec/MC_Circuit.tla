------------------------------ MODULE MC_Circuit ------------------------------
(***************************************************************************)
(* C09 / C10 / C14: all gate programs up to MAXLEN items over a fixed      *)
(* alphabet on N = 3 qubits, packed into layers by the transcribed take()  *)
(* algorithm.  Invariants: the packing is legal; reading the layers in     *)
(* order denotes the same map as the program; backward inverts forward.    *)
(* Every (program, layout) is emitted; the driver rebuilds the program in  *)
(* both circuit classes and every configuration.                           *)
(***************************************************************************)
EXTENDS Circuit, TLC
CONSTANTS MAXLEN, WITHMZ
VARIABLES prog, layers
N == 3

NamedItem(g, qs) == [k |-> "map", qs |-> qs,
                     m |-> CASE g = "H" -> GateH [] g = "S" -> GateS [] g = "X" -> GateX [] g = "Y" -> GateY
                             [] g = "Z" -> GateZ [] g = "CNOT" -> GateCNOT [] OTHER -> GateCNOTrev,
                     mi |-> CASE g = "S" -> <<P1(2, 2), P1(3, 0)>>          \* S^-1: X -> -Y
                              [] g = "H" -> GateH [] g = "X" -> GateX [] g = "Y" -> GateY [] g = "Z" -> GateZ
                              [] g = "CNOT" -> GateCNOT [] OTHER -> GateCNOTrev]
Seq1 == <<NamedItem("H", <<1>>), NamedItem("S", <<1>>)>>
Cyc  == Den(Seq1, 1)     CycI == DenInv(Seq1, 1)
Seq2 == <<NamedItem("H", <<1>>), NamedItem("CNOT", <<1, 2>>), NamedItem("S", <<2>>), [k |-> "gen", qs |-> <<1, 2>>, g |-> P2(2, 1, 2)]>>
M2   == Den(Seq2, 2)     M2I == DenInv(Seq2, 2)
Seq3 == <<NamedItem("H", <<2>>), NamedItem("CNOT", <<1, 2>>), NamedItem("CNOTrev", <<2, 3>>), NamedItem("S", <<3>>),
          [k |-> "gen", qs |-> <<1, 3>>, g |-> P2(1, 2, 0)]>>
G3   == Den(Seq3, 3)     G3I == DenInv(Seq3, 3)

\* alphabet: <<how the driver must specify the gate, item>>
Alpha == <<
  <<"named:H",       NamedItem("H", <<1>>)>>,
  <<"named:S",       NamedItem("S", <<2>>)>>,
  <<"named:X",       NamedItem("X", <<3>>)>>,
  <<"named:CNOT",    NamedItem("CNOT", <<1, 2>>)>>,
  <<"named:CNOTrev", NamedItem("CNOTrev", <<2, 3>>)>>,
  <<"named:CNOT",    NamedItem("CNOT", <<1, 3>>)>>,
  <<"gen",           [k |-> "gen", qs |-> <<1, 2>>, g |-> P2(1, 1, 0)]>>,
  <<"gen",           [k |-> "gen", qs |-> <<3>>, g |-> P1(3, 2)]>>,
  <<"gen",           [k |-> "gen", qs |-> <<1, 2, 3>>, g |-> [s |-> <<2, 3, 1>>, k |-> 0]]>>,
  <<"fwd",           [k |-> "map", qs |-> <<2, 3>>, m |-> M2, mi |-> M2I]>>,
  <<"bwd",           [k |-> "map", qs |-> <<2>>, m |-> Cyc, mi |-> CycI]>>,
  <<"both",          [k |-> "map", qs |-> <<1, 2, 3>>, m |-> G3, mi |-> G3I]>>,
  <<"named:Z",       NamedItem("Z", <<2>>)>>,
  <<"gen",           [k |-> "gen", qs |-> <<2>>, g |-> P1(2, 0)]>>,
  <<"mz",            [k |-> "mz", qs |-> <<1>>]>>,
  <<"mz",            [k |-> "mz", qs |-> <<2, 3>>]>> >>
NGATES == 14
Ids == IF WITHMZ THEN 1..16 ELSE 1..NGATES
Items(p) == [j \in 1..Len(p) |-> Alpha[p[j]][2]]

ASSUME AlphabetOK == ItemsConsistent([j \in 1..NGATES |-> Alpha[j][2]])
\* wire format of an alphabet entry
EncItem(a) == LET it == a[2] IN
    IF it.k = "gen" THEN <<a[1], it.qs, Enc(it.g)>>
    ELSE IF it.k = "map" THEN <<a[1], it.qs, EncM(it.m), EncM(it.mi)>>
    ELSE <<a[1], it.qs>>
ASSUME EmitAlphabet == \A j \in 1..16 : PrintT(ToString(<<"A", j, EncItem(Alpha[j])>>))

Init == prog = <<>> /\ layers = <<<<>>>>
Take(id) == /\ Len(prog) < MAXLEN
            /\ prog' = Append(prog, id)
            /\ layers' = (IF Alpha[id][2].k = "mz" THEN TakeMz(layers, Len(prog) + 1)
                          ELSE TakeGate(layers, Items(prog), Alpha[id][2], Len(prog) + 1))
Next == \E id \in Ids : Take(id)

Legal == LayoutLegal(NonEmpty(layers), Items(prog))
Unitary == \A j \in 1..Len(prog) : prog[j] <= NGATES
\* reading the layers in layer order denotes the same map as the program (disjoint gates commute)
DenLayout == Unitary => Den(LayoutProg(NonEmpty(layers), Items(prog)), N) = Den(Items(prog), N)
\* the functional form of the packing (used by the trace specification) is the stepwise one
PackIsFold == layers = PackProg(Items(prog))
\* compose(): re-taking the second half layer by layer gives a legal packing with the same denotation, for every split
ComposeLegal == Unitary => \A h \in 0..Len(prog) :
    LET it == Items(prog)  L == NonEmpty(ComposePack(it, h)) IN
    /\ LayoutLegal(L, it)
    /\ Den(LayoutProg(L, it), N) = Den(it, N)
\* (quick tier: legality only; the denotation part costs 50 s for 4369 programs)
ComposeLegalQ == Unitary => \A h \in 0..Len(prog) : LayoutLegal(NonEmpty(ComposePack(Items(prog), h)), Items(prog))
\* backward is the exact inverse of forward
RoundTrip == Unitary =>
    LET it == Items(prog) IN
    /\ \A j \in 1..2 * N : Backward(it, Forward(it, IdMap(N)[j])) = IdMap(N)[j]
    /\ \A j \in 1..2 * N : Forward(it, Backward(it, IdMap(N)[j])) = IdMap(N)[j]
    /\ ValidMap(Den(it, N)) /\ IsInverse(Den(it, N), DenInv(it, N))
\* each gate acts only on its declared qubits
Locality == \A j \in 1..NGATES : \A i \in 1..N :
    (i \notin QSet(Alpha[j][2])) => /\ FwdItem(Alpha[j][2], XOp(i, N)) = XOp(i, N)
                                    /\ FwdItem(Alpha[j][2], ZOp(i, N)) = ZOp(i, N)
EmitState == PrintT(ToString(<<"P", prog, NonEmpty(layers)>>))
=============================================================================
