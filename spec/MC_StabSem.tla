------------------------------ MODULE MC_StabSem ------------------------------
(***************************************************************************)
(* C05-C08, C12, C19 (abstract level): the signed-group semantics of       *)
(* StabSem is grounded in explicit density matrices.                       *)
(* The walk starts from the maximally mixed state and applies every        *)
(* rotation and every measurement outcome; TLC reaches every stabilizer    *)
(* state of every rank (N=1: 7, N=2: 91 = 60 pure + 30 rank-2 + 1).        *)
(* Rho(S) = SUM_{s in S} Mat(s) = 2^N rho.                                 *)
(***************************************************************************)
EXTENDS StabSem, GaussMat, TLC
CONSTANTS N, OVL, EMITPAIRS
VARIABLES S, lbl

D == Dim(N)
HermOps == HermSet(N)
Gens == {G \in HermOps : ~IsId(G)}
Rho(T) == MSum(T, N)

View == S
Init == S = MixedGroup(N) /\ lbl = <<"init">>
Rotate(G) == S' = RotGroup(G, S) /\ lbl' = <<"rot", G>>
Measure(O, o) == LET sem == SemMeasure(S, O, o) IN sem.ok /\ S' = sem.S /\ lbl' = <<"measure", O, o, sem.und>>
Next == (\E G \in Gens : Rotate(G)) \/ (\E O \in HermOps : \E o \in 0..1 : Measure(O, o))

\* ---- invariants: the abstract state is a density matrix
GroupOK == IsStabGroup(S, N) /\ Cardinality(S) \in {2 ^ k : k \in 0..N}
DensityGround == LET R == Rho(S) IN
    /\ Tr(R) = <<D, 0>>                                   \* trace one
    /\ MAdj(R) = R                                        \* Hermitian
    /\ MatMul(R, R) = MScale(Cardinality(S), R)           \* rho^2 = 2^-r rho: a projector of rank 2^r / 2^r
\* ---- Born rule and projection postulate for every observable and outcome
BornGround == \A O \in HermOps : \A o \in 0..1 :
    LET Oo == IF o = 1 THEN Neg(O) ELSE O
        P2 == MAdd(MId(D), Mat(Oo))                       \* 2 * projector onto the outcome
        sem == SemMeasure(S, O, o)
        lhs == MatMul(MatMul(P2, Rho(S)), P2)             \* = 4 p * 2^N rho'
    IN /\ (~sem.ok) => lhs = MZero(D)                     \* impossible outcome: probability 0
       /\ (sem.ok /\ ~sem.und) => lhs = MScale(4, Rho(S)) /\ sem.S = S          \* p = 1, state unchanged
       /\ (sem.ok /\ sem.und) => lhs = MScale(2, Rho(sem.S))                     \* p = 1/2, projected state
       /\ sem.ok => IsStabGroup(sem.S, N)
       /\ (sem.ok /\ sem.und) => (Cardinality(sem.S) = 2 * Cardinality(S)) = RankDrops(S, O)
\* repeating the measurement is deterministic and changes nothing
Repeatable == \A O \in HermOps : \A o \in 0..1 :
    LET sem == SemMeasure(S, O, o) IN sem.ok =>
        LET again == SemMeasure(sem.S, O, o) IN again.ok /\ ~again.und /\ again.S = sem.S
\* ---- expectation values
ExpectGround == \A P \in PauliSet(N) :
    LET e == ExpectG(S, P) IN Tr(MatMul(Rho(S), Mat(P))) = GScale(D, e)
\* ---- computational-basis probabilities
BitsOfIdx(b) == [i \in 1..N |-> Bit(b, i, N)]
ProbGround == /\ \A b \in 0..D - 1 : Rho(S)[b][b] = <<ProbNum(S, BitsOfIdx(b)), 0>>
              /\ LET RECURSIVE Sum(_)
                     Sum(b) == IF b < 0 THEN 0 ELSE ProbNum(S, BitsOfIdx(b)) + Sum(b - 1)
                 IN Sum(D - 1) = D                        \* probabilities sum to one
\* ---- entropy (N = 2: single-qubit regions by explicit partial trace; N = 1 trivial)
PTKeep1(R) == [i \in 0..1 |-> [j \in 0..1 |-> GAdd(R[2 * i][2 * j], R[2 * i + 1][2 * j + 1])]]
PTKeep2(R) == [i \in 0..1 |-> [j \in 0..1 |-> GAdd(R[i][j], R[2 + i][2 + j])]]
EntropyGround ==
    /\ Entropy(S, {}) = 0
    /\ Entropy(S, 1..N) = RankOf(S, N)
    /\ (N = 2) => \A a \in 1..2 :
         LET RA == IF a = 1 THEN PTKeep1(Rho(S)) ELSE PTKeep2(Rho(S))
             k == Entropy(S, {a})
         IN /\ k \in 0..1
            /\ MatMul(RA, RA) = MScale(2 ^ (N - k), RA)   \* flat spectrum with 2^k non-zero eigenvalues
            /\ Tr(RA) = <<D, 0>>
    /\ (Cardinality(S) = D) => \A A \in SUBSET (1..N) : Entropy(S, A) = Entropy(S, (1..N) \ A)   \* pure: region = complement
\* entropy is invariant under rotations supported inside or outside the region
EntropyInvariant == \A A \in SUBSET (1..N) : \A G \in Gens :
    (Supp(G) \subseteq A \/ Supp(G) \cap A = {}) => Entropy(RotGroup(G, S), A) = Entropy(S, A)
\* ---- rotation is unitary conjugation of rho (each element conjugated, C02 grounding)
RotateOK == \A G \in Gens : IsStabGroup(RotGroup(G, S), N) /\ Cardinality(RotGroup(G, S)) = Cardinality(S)

\* ---- overlaps, over all pairs of stabilizer states (closed ASSUME; AllStates is also the reachable set)
CommPairs == {pq \in HermOps \X HermOps : ~Anti(pq[1], pq[2])}
AllStates == {T \in {Span(<<pq[1], pq[2]>>, N) : pq \in CommPairs} : Neg(Id(N)) \notin T}
ReachableIsAll == S \in AllStates
\* emitted once for the drivers: all ordered pairs of commuting signed observables
ASSUME EmitCommPairs == EMITPAIRS => \A pq \in CommPairs : PrintT(ToString(<<"CP", Enc(pq[1]), Enc(pq[2])>>))
ASSUME OverlapGround == OVL =>
    \A A, B \in AllStates : Tr(MatMul(Rho(A), Rho(B))) = <<D * OverlapNum(A, B), 0>>
ASSUME CountStates == Cardinality(AllStates) = (IF N = 1 THEN 7 ELSE 91)
ASSUME ConstructorsOK ==
    /\ ZeroGroup(N) \in AllStates /\ OneGroup(N) \in AllStates /\ GHZGroup(N) \in AllStates
    /\ Rho(ZeroGroup(N))[0][0] = <<D, 0>>                  \* |0..0><0..0|
    /\ Rho(OneGroup(N))[D - 1][D - 1] = <<D, 0>>           \* |1..1><1..1|
    /\ LET R == Rho(GHZGroup(N)) IN R[0][0] = R[D - 1][D - 1] /\ R[0][D - 1] = R[0][0] /\ R[0][0] = <<D \div 2, 0>>
    /\ Rho(MixedGroup(N)) = MId(D)
=============================================================================
