------------------------------ MODULE TraceStab ------------------------------
(* Trace specification for the stabilizer-state family (C05-C08, C12, C14,  *)
(* C19): every recorded tableau is mapped to its signed stabilizer group    *)
(* (Grp) and every recorded return value is compared with the set formulas  *)
(* of StabSem.  Pivot choice, row order of standby rows and destabilizer     *)
(* phases are not compared.                                                  *)
EXTENDS Tableau, Circuit, GaussMat, TraceBase

TRows(t) == DecRows(t.rows)
TOK(t)  == /\ \A j \in 1..Len(t.rows) : WellFormed(t.rows[j], Len(t.rows[j]) - 1)
           /\ TableauOK(TRows(t), t.r) /\ DensityOK(TRows(t), t.r)
TGrp(t) == Grp(TRows(t), t.r)

\* dyadic numbers <<num, e>> = num / 2^e
DyEq(a, num, e) ==       \* a[1] / 2^a[2] = num / 2^e, arranged so that no power beyond 2^30 is ever formed
    IF a[2] <= e THEN (IF e - a[2] > 30 THEN a[1] = 0 /\ num = 0 ELSE a[1] * (2 ^ (e - a[2])) = num)
    ELSE (IF a[2] - e > 30 THEN a[1] = 0 /\ num = 0 ELSE a[1] = num * (2 ^ (a[2] - e)))

\* ---- C05: every tableau the library hands back is valid (whatever produced it)
PreValid  == Has("pre") => TOK(Rec.pre)
PostValid == (Has("post") /\ ~Has("refused")) => TOK(Rec.post)

\* ---- C06: Born rule and projection postulate
\* one entry = one call measure(obs) on a fresh copy of pre, with the recorded coin schedule
MeasEntryOK(S0, e) ==
    LET obs == DecL(e.obs)
        sem == SemMeasureList(S0, obs, e.out, Len(obs))
    IN /\ Len(e.out) = Len(obs) /\ \A j \in 1..Len(e.out) : e.out[j] \in 0..1
       /\ TOK(e.post)
       /\ sem.ok                                   \* OutcomePossible (also: determined outcomes are the forced ones)
       /\ e.l2p = 0 - sem.nund                     \* ProbOK: log2 of the joint probability
       /\ TGrp(e.post) = sem.S                     \* PostIsProjection (rank drops iff a logical operator was measured)
       /\ Cardinality(sem.S) = 2 ^ (Len(e.post.rows) \div 2 - e.post.r)
       \* Repeatable: measuring again returns the same outcomes with log2-probability 0, state unchanged
       /\ ("again" \in DOMAIN e) => (e.again.out = e.out /\ e.again.l2p = 0 /\ TGrp(e.again.post) = sem.S)
MeasureOK == (Rec.op = "measure1" /\ Has("entries")) =>
    LET S0 == TGrp(Rec.pre) IN \A j \in 1..Len(Rec.entries) : MeasEntryOK(S0, Rec.entries[j])
\* L2 conformance (model drift, never a verdict): the transcribed algorithm of Tableau.tla, run with the coins
\* that produce the recorded outcomes, yields the recorded post-tableau bit for bit (all 2n rows and phases)
Drift_Measure == (Rec.op = "measure1" /\ Has("entries")) =>
    \A j \in 1..Len(Rec.entries) :
        LET e == Rec.entries[j]
            m == ImplMeasureList(TRows(Rec.pre), Rec.pre.r, DecL(e.obs), e.out, Len(e.obs))
        IN m.rows = TRows(e.post) /\ m.r = e.post.r /\ e.l2p = 0 - m.nund
\* every outcome vector of non-zero probability was seen over the coin schedules tried, and nothing else
PossibleOuts(S0, obs) == {o \in [1..Len(obs) -> 0..1] : SemMeasureList(S0, obs, o, Len(obs)).ok}
BranchesOK == (Rec.op = "measure1" /\ Has("branches")) =>
    LET S0 == TGrp(Rec.pre) IN
    \A j \in 1..Len(Rec.branches) :
        {Rec.branches[j].outs[i] : i \in 1..Len(Rec.branches[j].outs)} = PossibleOuts(S0, DecL(Rec.branches[j].obs))

\* ---- C07: expectations, overlaps, probabilities
ExpectListOK == (Rec.op = "expect" /\ Has("vals")) =>
    LET S0 == TGrp(Rec.pre) IN
    /\ Len(Rec.vals) = Len(Rec.obs)
    /\ \A j \in 1..Len(Rec.obs) : Rec.vals[j] = Expect(S0, Dec(Rec.obs[j]))
\* Pauli / monomial / polynomial: SUM c_k Tr(rho sigma_k) with c_k = (a_k + i b_k) / 2^e, phases i^k included
RECURSIVE PolySum(_, _, _)
PolySum(S0, terms, j) == IF j = 0 THEN <<0, 0>>
    ELSE LET t == terms[j]
             g == ExpectG(S0, Dec(t.p))
             c == <<t.c[1], t.c[2]>>
             prod == <<c[1] * g[1] - c[2] * g[2], c[1] * g[2] + c[2] * g[1]>>
             prev == PolySum(S0, terms, j - 1)
         IN <<prev[1] + prod[1], prev[2] + prod[2]>>
\* coefficients are Gaussian integers over the common denominator 2^Rec.e; value = <<re, im>> dyadics
ExpectPolyOK == (Rec.op = "expect_poly" /\ Has("val")) =>
    LET v == PolySum(TGrp(Rec.pre), Rec.terms, Len(Rec.terms)) IN
    DyEq(Rec.val[1], v[1], Rec.e) /\ DyEq(Rec.val[2], v[2], Rec.e)
OverlapOK == (Rec.op = "overlap" /\ Has("val")) =>
    DyEq(Rec.val, OverlapNum(TGrp(Rec.pre), TGrp(Rec.other)), Len(Rec.pre.rows) \div 2)
ProbOK == (Rec.op = "prob" /\ Has("vals")) =>
    LET S0 == TGrp(Rec.pre)  n == Len(Rec.pre.rows) \div 2 IN
    \A j \in 1..Len(Rec.bits) : DyEq(Rec.vals[j], ProbNum(S0, Rec.bits[j]), n)
\* classifier of an open finding (torchclifford stabilizer_projection_trace): some stabilizer of the
\* argument is, up to sign, already in the projected group -- the kernel's determined-sign path is taken
RECURSIVE DetSome(_, _, _)
DetSome(S0, gs, j) == IF j > Len(gs) THEN FALSE
    ELSE IF Strip(gs[j]) \in S0 \/ Neg(Strip(gs[j])) \in S0 THEN TRUE
    ELSE DetSome(SemMeasure(S0, gs[j], 0).S, gs, j + 1)
KF_TorchOverlapDetermined == ~(Rec.op = "overlap" /\ Rec.pkg = "torch" /\ Has("val") /\
    LET n == Len(Rec.other.rows) \div 2
        gs == [j \in 1..n - Rec.other.r |-> Dec(Rec.other.rows[Rec.other.r + j])]
    IN DetSome(TGrp(Rec.pre), gs, 1))
\* queries leave the receiver (and the argument) unchanged -- bitwise
QueryFrameOK == (Rec.op \in {"expect", "expect_poly", "overlap", "prob", "entropy"} /\ Has("pre1")) =>
    /\ Rec.pre1 = Rec.pre
    /\ Has("other1") => Rec.other1 = Rec.other
\* explicit refusals are not reported values
\* (the only documented refusal among the queries: a state argument on a mixed receiver)
RefuseOK == (Has("refused") /\ Rec.op # "fromstab") => (Rec.refused = "NotImplementedError" /\ Has("mixed_receiver") /\ Rec.mixed_receiver = TRUE)

\* ---- C08: entropy
EntropyOK == (Rec.op = "entropy" /\ Has("vals")) =>
    LET S0 == TGrp(Rec.pre) IN
    \A j \in 1..Len(Rec.regions) :
        Rec.vals[j] = Entropy(S0, {Rec.regions[j][i] : i \in 1..Len(Rec.regions[j])})

\* wide registers with a pure padding (group too large to enumerate): by the lemma MC_Pad!PadEntropy the entropy of
\* (basis state on the first n - k qubits) x (block on the last k) in a region is the block's entropy in the part of
\* the region inside the block
WideEntropyOK == (Rec.op = "wideentropy" /\ Has("vals")) =>
    LET S0 == TGrp(Rec.block)  off == Rec.n - Rec.k IN
    \A j \in 1..Len(Rec.regions) :
        Rec.vals[j] = Entropy(S0, {Rec.regions[j][i] - off : i \in {a \in 1..Len(Rec.regions[j]) : Rec.regions[j][a] > off}})

\* very wide pure states: a GHZ state whose qubits were rotated by single-qubit Clifford gates (each acts inside or
\* outside any region, so the entropies are those of the GHZ state: lemma MC_Pad!GHZEntropy)
GHZEntropyOK == (Rec.op = "ghzentropy" /\ Has("vals")) =>
    \A j \in 1..Len(Rec.regions) :
        LET A == {Rec.regions[j][i] : i \in 1..Len(Rec.regions[j])} IN
        Rec.vals[j] = (IF A = {} \/ A = 1..Rec.n THEN 0 ELSE 1)

\* ---- C05 / C02 / C03 / C14 on states: one public state-changing call per entry, applied to a
\* fresh copy of pre (op "steps") or to the live object of the previous entry (op "walk")
GateMap(name) == CASE name = "H" -> GateH [] name = "S" -> GateS [] name = "X" -> GateX [] name = "Y" -> GateY
                   [] name = "Z" -> GateZ [] name = "CNOT" -> GateCNOT [] name = "CNOTrev" -> GateCNOTrev
ImageGroup(S0, mm, qs, n) == IF Len(qs) = n THEN {Apply(mm, s) : s \in S0} ELSE {ApplyMasked(mm, qs, s) : s \in S0}
\* post-selection of (-1)^b P on a pure state: <<post group, 2*prob>>
SemPostselect(S0, P, b) ==
    LET Oo == IF b = 1 THEN Neg(P) ELSE P IN
    IF Oo \in S0 THEN <<S0, 2>> ELSE IF Neg(Oo) \in S0 THEN <<S0, 0>>
    ELSE LET C == {s \in S0 : ~Anti(s, P)} IN <<C \cup {Mul(s, Oo) : s \in C}, 1>>
StepSemOK(S0, r0, e, n) ==
    CASE e.kind = "rot" -> TGrp(e.post) = RotGroup(Dec(e.g), S0) /\ e.post.r = r0
      [] e.kind = "rotm" -> TGrp(e.post) = {RotMasked(Dec(e.g), e.qs, s) : s \in S0} /\ e.post.r = r0
      [] e.kind = "tf" -> TGrp(e.post) = ImageGroup(S0, DecM(e.m), e.qs, n) /\ e.post.r = r0
      [] e.kind = "gate" -> TGrp(e.post) = ImageGroup(S0, GateMap(e.name), e.qs, n) /\ e.post.r = r0
      [] e.kind = "circ" -> TGrp(e.post) = {Forward(DecProg(e.prog), s) : s \in S0} /\ e.post.r = r0
      [] e.kind = "copy" -> e.post = e.orig /\ e.disjoint = TRUE
      [] e.kind = "measure" ->
           LET sem == SemMeasureList(S0, DecL(e.obs), e.out, Len(e.obs)) IN
           /\ sem.ok /\ e.l2p = 0 - sem.nund /\ TGrp(e.post) = sem.S
           /\ ("want" \in DOMAIN e) => e.out = e.want      \* the outcome TLC chose can be reached by some coin schedule
      [] e.kind = "postselect" ->
           LET sem == SemPostselect(S0, Dec(e.p), e.b) IN
           TGrp(e.post) = sem[1] /\ DyEq(e.prob, sem[2], 1) /\ e.post.r = r0
      [] e.kind = "set_r" -> e.post.r = e.r /\ e.post.rows = e.rows0
      [] OTHER -> FALSE
StepOK(S0, r0, e, n) == TOK(e.post) /\ StepSemOK(S0, r0, e, n)
\* one clause per kind of call, so that a rejection names the operation
KindOK(kinds) == (Rec.op = "steps" /\ Has("entries")) =>
    LET S0 == TGrp(Rec.pre)  n == Len(Rec.pre.rows) \div 2 IN
    \A j \in 1..Len(Rec.entries) : Rec.entries[j].kind \in kinds => StepSemOK(S0, Rec.pre.r, Rec.entries[j], n)
StepsValid == (Rec.op \in {"steps", "walk"} /\ Has("entries")) => \A j \in 1..Len(Rec.entries) : TOK(Rec.entries[j].post)
\* ... and every row (standby rows and destabilizers too) keeps a Hermitian phase: to_map() / diagonalize() turn ALL rows into
\* the images of a Clifford map, which is then applied to other states (pre-tableaux of the scenarios have Hermitian rows)
AllHerm(t) == \A j \in 1..Len(t.rows) : t.rows[j][Len(t.rows[j])] \in {0, 2}
StepsHermOK == (Rec.op \in {"steps", "walk"} /\ Has("entries") /\ AllHerm(Rec.pre)) =>
    \A j \in 1..Len(Rec.entries) : (Rec.entries[j].kind \notin {"set_r", "copy"}) => AllHerm(Rec.entries[j].post)
StepsRotOK == KindOK({"rot", "rotm"})
StepsTransformOK == KindOK({"tf"})
StepsGateOK == KindOK({"gate", "circ"})
StepsMeasureOK == KindOK({"measure"})
StepsPostselectOK == KindOK({"postselect"})
StepsCopyOK == KindOK({"copy", "set_r"})
\* a history on one live object: entry j starts from the post-state of entry j-1
RECURSIVE WalkFrom(_, _, _, _)
WalkFrom(t, es, j, n) == IF j > Len(es) THEN TRUE
    ELSE StepOK(TGrp(t), t.r, es[j], n) /\ WalkFrom(es[j].post, es, j + 1, n)
WalkOK == (Rec.op = "walk" /\ Has("entries")) => WalkFrom(Rec.pre, Rec.entries, 1, Len(Rec.pre.rows) \div 2)

\* ---- C12: constructors and state <-> map duality
CtorGroup(name, n) == CASE name = "zero" -> ZeroGroup(n) [] name = "one" -> OneGroup(n)
                        [] name = "ghz" -> GHZGroup(n) [] name = "mixed" -> MixedGroup(n)
\* (post2: the same constructor called again after the caller rotated the first state in place)
CtorOK == (Rec.op = "ctor" /\ Has("post")) =>
    /\ TGrp(Rec.post) = CtorGroup(Rec.name, Rec.n) /\ Rec.post.r = (IF Rec.name = "mixed" THEN Rec.n ELSE 0)
    /\ Has("post2") => TGrp(Rec.post2) = CtorGroup(Rec.name, Rec.n) /\ Rec.post2.r = Rec.post.r
\* map -> state: rows are the Z-images (stabilizers) then the X-images (destabilizers), signs included;
\* the state is the map applied to |0..0>; state -> map gives the same map back
MapToRows(mm) == LET n == Len(mm) \div 2 IN [j \in 1..2 * n |-> IF j <= n THEN mm[2 * j] ELSE mm[2 * (j - n) - 1]]
ToStateOK == (Rec.op = "tostate" /\ Has("post")) =>
    LET mm == DecM(Rec.m)  n == Len(mm) \div 2 IN
    /\ TRows(Rec.post) = MapToRows(mm)
    /\ Rec.post.r = Rec.rarg
    /\ (Rec.rarg = 0) => TGrp(Rec.post) = {Apply(mm, s) : s \in ZeroGroup(n)}
    /\ Has("back") => Rec.back = Rec.m
\* random_bit_state: a computational basis state; random_pauli_state: a product of single-qubit stabilizer states
ProductOK(S0, n, letters) == Cardinality(S0) = 2 ^ n /\ \A i \in 1..n : \E s \in S0 : Supp(s) = {i} /\ s.s[i] \in letters
RandCtorOK == (Rec.op = "randctor" /\ Has("post")) =>
    /\ TOK(Rec.post)
    /\ Rec.name = "random_bit" => ProductOK(TGrp(Rec.post), Rec.n, {3}) /\ Rec.post.r = 0
    /\ Rec.name = "random_pauli" => (Rec.rarg = 0 => ProductOK(TGrp(Rec.post), Rec.n, {1, 2, 3})) /\ Rec.post.r = Rec.rarg
    /\ Rec.name = "random_clifford" => Rec.post.r = Rec.rarg
\* dense export: 2^n * rho = SUM of the matrices of the group elements (entries are Gaussian integers)
QutipOK == (Rec.op = "qutip" /\ Has("mat")) =>
    LET n == Len(Rec.pre.rows) \div 2  R == MSum(TGrp(Rec.pre), n) IN
    \A a \in 0..Dim(n) - 1 : \A b \in 0..Dim(n) - 1 : <<Rec.mat[a + 1][b + 1][1], Rec.mat[a + 1][b + 1][2]>> = R[a][b]
\* stabilizer_state(list): projector onto the joint +1 eigenspace, rank 2^(n-L); anticommuting input is refused
FromStabOK == Rec.op = "fromstab" =>
    LET ops == DecL(Rec.stabs)  n == Rec.n
        anti == \E i, j \in 1..Len(ops) : Anti(ops[i], ops[j]) IN
    /\ anti => (Has("refused") /\ Rec.refused = "ValueError")
    /\ (~anti) => /\ Has("post") /\ TOK(Rec.post)
                  /\ TGrp(Rec.post) = Span(ops, n)
                  /\ Rec.post.r = n - Len(ops)
\* utils.decompose (used by nobody, promised by no property: model drift only): sigma(g) = i^phase * (selected
\* destabilizers, in order) * (selected stabilizers, in order); destabilizer i is selected iff g anticommutes with
\* stabilizer i and vice versa
RECURSIVE ProdSel(_, _, _, _, _, _)
ProdSel(acc, rows, sel, off, i, n) == IF i > n THEN acc
    ELSE ProdSel(IF sel[i] = 1 THEN Mul(acc, rows[off + i]) ELSE acc, rows, sel, off, i + 1, n)
Drift_Decompose == Rec.op = "decompose" =>
    /\ ~Has("raised")
    /\ LET rows == TRows(Rec.pre)  n == Len(rows) \div 2  P == Dec(Rec.p)
        R == ProdSel(ProdSel(Id(n), rows, Rec.b, n, 1, n), rows, Rec.c, 0, 1, n) IN
       /\ \A i \in 1..n : Rec.b[i] = (IF Anti(P, rows[i]) THEN 1 ELSE 0) /\ Rec.c[i] = (IF Anti(P, rows[n + i]) THEN 1 ELSE 0)
       /\ Dec(Rec.tmp) = P
       /\ Ph(R, Rec.phase) = P
\* wide registers (N > 64): the tableau invariant itself (it implies independence and -1 \notin group; the group is
\* too large to enumerate), rank untouched by a unitary circuit
WideCircOK == (Rec.op = "widecirc" /\ ~Has("exc")) =>
    /\ \A j \in 1..Len(Rec.wpost.rows) : WellFormed(Rec.wpost.rows[j], Len(Rec.wpost.rows[j]) - 1)
    /\ TableauOK(TRows(Rec.wpost), Rec.wpost.r) /\ Rec.wpost.r = Rec.wpre.r
\* ... and (model drift) every row is the image of the corresponding row under the program
Drift_WideCirc == (Rec.op = "widecirc" /\ ~Has("exc")) =>
    \A j \in 1..Len(Rec.wpre.rows) : Dec(Rec.wpost.rows[j]) = Forward(DecProg(Rec.prog), Dec(Rec.wpre.rows[j]))
\* L2 conformance (model drift, never a verdict): the transcribed projection of Tableau.tla gives the recorded tableau bit for bit
Drift_FromStab == (Rec.op = "fromstab" /\ Has("post") /\ Rec.pkg = "py") =>
    LET ops == DecL(Rec.stabs)
        t == ImplStabilizerState(ops, Rec.n) IN
    (\A i, j \in 1..Len(ops) : ~Anti(ops[i], ops[j])) => (t.rows = TRows(Rec.post) /\ t.r = Rec.post.r)
NoCrashS == ~Has("exc")
=============================================================================
