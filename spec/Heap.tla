--------------------------------- MODULE Heap ---------------------------------
(***************************************************************************)
(* C17: the shape of executions -- object identities, aliasing and         *)
(* modifies-sets.  Values are opaque here (the value modules say what they *)
(* must be); the heap model says *which objects may change* at each call.  *)
(*                                                                         *)
(*   val[o]    abstract value of object slot o (a version number)          *)
(*   store[o]  set of buffer ids reachable from o                          *)
(* Method classes (taken from the property text):                          *)
(*   "query"   receiver and arguments unchanged                            *)
(*   "inplace" receiver changes, arguments unchanged                       *)
(*   "argmut"  first argument changes (gate/layer/circuit forward,         *)
(*             backward), receiver's denotation unchanged                  *)
(* Copy gives an equal value on fresh buffers; Poke(o) overwrites every    *)
(* buffer of o, so exactly the objects sharing a buffer with o change.     *)
(***************************************************************************)
EXTENDS Naturals, FiniteSets, Sequences, TLC
CONSTANTS Slots, MAXSTEPS
VARIABLES val, store, nbuf, ver, hist

Live == {o \in Slots : store[o] # {}}
Init == /\ val = [o \in Slots |-> 0] /\ store = [o \in Slots |-> {}]
        /\ nbuf = 0 /\ ver = 0 /\ hist = <<>>
New(o) == /\ store[o] = {} /\ store' = [store EXCEPT ![o] = {nbuf + 1}]
          /\ nbuf' = nbuf + 1 /\ ver' = ver + 1 /\ val' = [val EXCEPT ![o] = ver + 1]
          /\ hist' = Append(hist, <<"new", o>>)
Copy(s, d) == /\ s \in Live /\ d \notin Live
              /\ val' = [val EXCEPT ![d] = val[s]]                    \* faithful
              /\ store' = [store EXCEPT ![d] = {nbuf + 1}]            \* disjoint storage
              /\ nbuf' = nbuf + 1 /\ UNCHANGED ver
              /\ hist' = Append(hist, <<"copy", s, d>>)
Query(o, a) == /\ o \in Live /\ a \in Live
               /\ UNCHANGED <<val, store, nbuf, ver>>
               /\ hist' = Append(hist, <<"query", o, a>>)
InPlace(o, a) == /\ o \in Live /\ a \in Live /\ a # o
                 /\ ver' = ver + 1
                 /\ val' = [x \in Slots |-> IF store[x] \cap store[o] # {} THEN ver + 1 ELSE val[x]]
                 /\ UNCHANGED <<store, nbuf>>
                 /\ hist' = Append(hist, <<"inplace", o, a>>)
Poke(o) == /\ o \in Live /\ ver' = ver + 1
           /\ val' = [x \in Slots |-> IF store[x] \cap store[o] # {} THEN ver + 1 ELSE val[x]]
           /\ UNCHANGED <<store, nbuf>>
           /\ hist' = Append(hist, <<"poke", o>>)
Step == (\E o \in Slots : (New(o) \/ Poke(o))) \/ (\E s, d \in Slots : (Copy(s, d) \/ Query(s, d) \/ InPlace(s, d)))
Next == Len(hist) < MAXSTEPS /\ Step

\* the property on the model: no two live slots ever share a buffer, hence a poke / in-place call changes one object only
NoAliasing == \A a, b \in Live : a # b => store[a] \cap store[b] = {}
LastAct == hist'[Len(hist')]
OnlyTargetChanges == [][\A x \in Slots : (val'[x] # val[x]) =>
                          ((LastAct[1] = "copy" /\ x = LastAct[3]) \/ (LastAct[1] # "copy" /\ x = LastAct[2]))]_<<val, store, nbuf, ver, hist>>
EmitHist == (Len(hist) = MAXSTEPS) => PrintT(ToString(<<"H", hist>>))
=============================================================================
