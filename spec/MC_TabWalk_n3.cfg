CONSTANTS N = 3
INIT Init
NEXT SimNext
INVARIANT GroupOK
ACTION_CONSTRAINT EmitSim
