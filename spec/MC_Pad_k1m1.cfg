CONSTANTS K = 1
M = 1
INIT Init
NEXT Next
