------------------------------- MODULE Circuit -------------------------------
(***************************************************************************)
(* Circuits as sequential programs over gates (C09, C10, C14).             *)
(*                                                                         *)
(* A program item is a record                                              *)
(*   [k |-> "gen",  qs, g]        rotation by generator g on qubits qs     *)
(*   [k |-> "map",  qs, m, mi]    map gate (m forward, mi = its inverse;   *)
(*                                 how the gate was specified -- forward    *)
(*                                 map, backward map only, named           *)
(*                                 constructor -- is the driver's business) *)
(*   [k |-> "mz",   qs]           computational-basis measurement layer    *)
(* qs is an ascending sequence of 1-based qubits.                          *)
(*                                                                         *)
(* L1 meaning: Forward applies the items one at a time in program order;   *)
(* Backward applies the inverses in reverse order.                         *)
(* L2: Take transcribes CliffordCircuit.take / Circuit.take /              *)
(* CliffordLayer.take (slide a gate back through layers it does not        *)
(* overlap; never across a measurement layer).  LayoutLegal is the         *)
(* predicate that makes any packing harmless; it is evaluated on TLC's     *)
(* own packing and on the layouts recorded from the real circuits.         *)
(***************************************************************************)
EXTENDS Clifford, FiniteSets

QSet(it) == {it.qs[a] : a \in 1..Len(it.qs)}
Overlap(a, b) == QSet(a) \cap QSet(b) # {}

\* ---- L1 semantics on one operator
FwdItem(it, P) == IF it.k = "gen" THEN RotMasked(it.g, it.qs, P)
                  ELSE IF it.k = "map" THEN ApplyMasked(it.m, it.qs, P) ELSE P
BwdItem(it, P) == IF it.k = "gen" THEN RotMasked(Neg(it.g), it.qs, P)
                  ELSE IF it.k = "map" THEN ApplyMasked(it.mi, it.qs, P) ELSE P
RECURSIVE FwdSeq(_, _, _)
FwdSeq(prog, P, j) == IF j > Len(prog) THEN P ELSE FwdSeq(prog, FwdItem(prog[j], P), j + 1)
RECURSIVE BwdSeq(_, _, _)
BwdSeq(prog, P, j) == IF j = 0 THEN P ELSE BwdSeq(prog, BwdItem(prog[j], P), j - 1)
Forward(prog, P)  == FwdSeq(prog, P, 1)
Backward(prog, P) == BwdSeq(prog, P, Len(prog))
\* the compiled denotation: images of the generators
Den(prog, n)    == [j \in 1..2 * n |-> Forward(prog, IdMap(n)[j])]
DenInv(prog, n) == [j \in 1..2 * n |-> Backward(prog, IdMap(n)[j])]
ItemsConsistent(prog) == \A j \in 1..Len(prog) :
    prog[j].k = "map" => IsInverse(prog[j].m, prog[j].mi) /\ MapN(prog[j].m) = Len(prog[j].qs)

\* wire format of program items
DecItem(w) == IF w.k = "gen" THEN [k |-> "gen", qs |-> w.qs, g |-> Dec(w.g)]
              ELSE IF w.k = "map" THEN [k |-> "map", qs |-> w.qs, m |-> DecM(w.m), mi |-> DecM(w.mi)]
              ELSE [k |-> "mz", qs |-> w.qs]
DecProg(ws) == [j \in 1..Len(ws) |-> DecItem(ws[j])]

\* ---- layouts: a sequence of layers; a layer is a sequence of program indices (a measurement layer
\* is the one-element layer holding the index of its "mz" item)
Flat(layers) == LET RECURSIVE F(_)
                    F(j) == IF j = 0 THEN <<>> ELSE F(j - 1) \o layers[j]
                IN F(Len(layers))
LayerOf(layers, i) == CHOOSE a \in 1..Len(layers) : \E b \in 1..Len(layers[a]) : layers[a][b] = i
LayoutLegal(layers, prog) ==
    LET flat == Flat(layers) IN
    /\ Len(flat) = Len(prog)                                                   \* every item exactly once
    /\ \A i \in 1..Len(prog) : Cardinality({b \in 1..Len(flat) : flat[b] = i}) = 1
    /\ \A a \in 1..Len(layers) : \A b, c \in 1..Len(layers[a]) :
          b # c => ~Overlap(prog[layers[a][b]], prog[layers[a][c]])            \* a layer acts on disjoint qubits
    /\ \A a \in 1..Len(layers) : \A b \in 1..Len(layers[a]) :
          prog[layers[a][b]].k = "mz" => Len(layers[a]) = 1                    \* a measurement is a layer of its own
    /\ \A i, j \in 1..Len(prog) :
          (i < j /\ (Overlap(prog[i], prog[j]) \/ prog[i].k = "mz" \/ prog[j].k = "mz"))
             => LayerOf(layers, i) < LayerOf(layers, j)                        \* dependent items keep program order
\* program obtained by reading the layout layer by layer
LayoutProg(layers, prog) == LET flat == Flat(layers) IN [b \in 1..Len(flat) |-> prog[flat[b]]]

\* ---- L2: the slide-back packing of take()
IndepLayer(layers, prog, a, it) == \A b \in 1..Len(layers[a]) : ~Overlap(prog[layers[a][b]], it)
IsMz(layers, prog, a) == Len(layers[a]) >= 1 /\ prog[layers[a][1]].k = "mz"
\* CliffordLayer.take: layer a keeps the gate unless the previous layer exists, is not a measurement, and is independent
RECURSIVE Slide(_, _, _, _)
Slide(layers, prog, a, it) ==
    IF a = 1 \/ IsMz(layers, prog, a - 1) THEN a
    ELSE IF IndepLayer(layers, prog, a - 1, it) THEN Slide(layers, prog, a - 1, it) ELSE a
\* circuit.take for a gate (idx = its program index); the first layer always exists and may be empty
TakeGate(layers, prog, it, idx) ==
    LET last == Len(layers) IN
    IF ~IsMz(layers, prog, last) /\ IndepLayer(layers, prog, last, it)
    THEN [layers EXCEPT ![Slide(layers, prog, last, it)] = Append(@, idx)]
    ELSE Append(layers, <<idx>>)
TakeMz(layers, idx) == Append(layers, <<idx>>)
\* the packing as a function of the program: take() folded over an order of program indices
RECURSIVE PackOrd(_, _, _, _)
PackOrd(layers, prog, ord, j) ==
    IF j > Len(ord) THEN layers
    ELSE LET i == ord[j] IN
         PackOrd(IF prog[i].k = "mz" THEN TakeMz(layers, i) ELSE TakeGate(layers, prog, prog[i], i), prog, ord, j + 1)
PackProg(prog) == PackOrd(<<<<>>>>, prog, [j \in 1..Len(prog) |-> j], 1)
\* a.compose(b), a = the first h items, b = the rest: b's gates are taken layer by layer (b's own packing order),
\* not in the order b received them
ComposePack(prog, h) ==
    LET tail == SubSeq(prog, h + 1, Len(prog))
        tord == Flat(PackProg(tail))
    IN PackOrd(PackProg(SubSeq(prog, 1, h)), prog, [b \in 1..Len(tord) |-> tord[b] + h], 1)
\* drop the (possibly empty) first layer when comparing with recorded layouts
NonEmpty(layers) == SelectSeq(layers, LAMBDA x : Len(x) > 0)
=============================================================================
