CONSTANTS NMAX = 2
 FULL2 = FALSE
INIT Init
NEXT Next
