CONSTANTS N = 6
INIT Init
NEXT SimNext
ACTION_CONSTRAINT EmitSim
