CONSTANTS N = 4
INIT Init
NEXT SimNext
ACTION_CONSTRAINT EmitSim
