CONSTANTS N = 9
INIT Init
NEXT SimNext
ACTION_CONSTRAINT EmitSim
