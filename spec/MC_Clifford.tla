----------------------------- MODULE MC_Clifford -----------------------------
(***************************************************************************)
(* C02 / C03 / C04 / C11: the Clifford group as a state machine.           *)
(* GroupWalk starts at the identity map and conjugates by every signed     *)
(* rotation generator; the second variable carries the inverse map,        *)
(* updated compositionally, so every state knows its inverse without any   *)
(* linear algebra.  TLC reaches exactly |Sp(2N,2)| * 4^N states (24,       *)
(* 11520): the whole group.  Invariants are the property clauses           *)
(* evaluated in every state; ASSUMEs are closed theorems over the finite   *)
(* Pauli group.  States and edges are emitted for replay.                  *)
(***************************************************************************)
EXTENDS Clifford, GaussMat, BinaryRep, TLC
CONSTANTS N, GROUND, HOMFULL, EMITEDGES
VARIABLES m, minv, lbl

PS  == PauliSet(N)
STR == Strings(N)
Gens == {G \in HermSet(N) : ~IsId(G)}

\* ---------------- C02: rotation = conjugation by exp(i pi/4 G), via (1-iG) P (1+iG) = 2 Rot(G,P)
ASSUME RotGround == GROUND =>
    \A G \in Gens : \A P \in STR :
        LET MG == Mat(G)  D == Dim(N)
            L == MAdd(MId(D), MGScale(<<0, -1>>, MG))       \* 1 - iG
            R == MAdd(MId(D), MGScale(<<0, 1>>, MG))        \* 1 + iG
        IN MatMul(MatMul(L, Mat(P)), R) = MScale(2, Mat(Rot(G, P)))
ASSUME RotTheorems ==
    \A G \in Gens : \A P \in PS :
        /\ Rot(Neg(G), Rot(G, P)) = P                        \* -G undoes G
        /\ Rot(G, Rot(G, Rot(G, Rot(G, P)))) = P             \* four rotations restore
        /\ Rot(G, Ph(P, 1)) = Ph(Rot(G, P), 1)               \* linear in the phase
        /\ (~Anti(G, P)) => Rot(G, P) = P
ASSUME RotHom ==
    \A G \in Gens : \A P, Q \in STR : Rot(G, Mul(P, Q)) = Mul(Rot(G, P), Rot(G, Q))
\* L2: utils.clifford_rotate refines Rot
ASSUME RotateRefines ==
    \A g \in BitVecs(N) : \A p \in {0, 2} : \A gr \in BitVecs(N) : \A pr \in 0..3 :
        LET r == RotateImpl(g, p, gr, pr) IN Sigma(r[1], r[2]) = Rot(Sigma(g, p), Sigma(gr, pr))

\* the map built from a rotation generator acts identically to the rotation itself (C03)
ASSUME RotMapActs ==
    \A G \in Gens : ValidMap(RotMap(G)) /\ \A P \in PS : Apply(RotMap(G), P) = Rot(G, P)
\* emitted once: the generator maps used as right operands of compose along the walk
ASSUME EmitRotMaps == EMITEDGES => \A G \in Gens : PrintT(ToString(<<"R", Enc(G), EncM(RotMap(G))>>))

\* ---------------- the walk
Init == m = IdMap(N) /\ minv = IdMap(N) /\ lbl = <<"init", Id(N)>>
Step(G) == /\ m' = [j \in 1..2 * N |-> Rot(G, m[j])]
           /\ minv' = Compose(RotMap(Neg(G)), minv)
           /\ lbl' = <<"rot", G>>
Next == \E G \in Gens : Step(G)

\* ---------------- C03 clauses, evaluated in every reachable map
Valid == ValidMap(m) /\ ValidMap(minv)
FixesGenerators == /\ Apply(m, Id(N)) = Id(N)
                   /\ \A i \in 1..N : Apply(m, XOp(i, N)) = m[2 * i - 1] /\ Apply(m, ZOp(i, N)) = m[2 * i]
                   /\ \A i \in 1..N : Apply(m, YOp(i, N)) = Ph(Mul(m[2 * i - 1], m[2 * i]), 1)
Homomorphism == \A P, Q \in (IF HOMFULL THEN PS ELSE STR) : Apply(m, Mul(P, Q)) = Mul(Apply(m, P), Apply(m, Q))
PhaseLinear == \A P \in STR : \A e \in 0..3 : Apply(m, Ph(P, e)) = Ph(Apply(m, P), e)
Preserves == \A P, Q \in STR : Anti(Apply(m, P), Apply(m, Q)) = Anti(P, Q)
PreservesHerm == \A P \in PS : Herm(Apply(m, P)) = Herm(P)
\* the edge is a rotation, i.e. an exact matrix conjugation (RotGround), and m' is m followed by it
EdgeIsConjugation == [][\A j \in 1..2 * N : m'[j] = Rot(lbl'[2], m[j])]_<<m, minv, lbl>>
EdgeIsCompose == [][m' = Compose(m, RotMap(lbl'[2]))]_<<m, minv, lbl>>
\* L2: utils.pauli_transform refines Apply in every state
TransformRefines == \A P \in PS :
    LET r == TransformImpl(BitsOf(P), P.k, [j \in 1..2 * N |-> BitsOf(m[j])], [j \in 1..2 * N |-> m[j].k])
    IN Sigma(r[1], r[2]) = Apply(m, P)

\* ---------------- C04 clauses
InverseOK == IsInverse(m, minv)
ApplyCompose == \A P \in STR : Apply(Compose(m, minv), P) = Apply(minv, Apply(m, P))
IdNeutral == Compose(m, IdMap(N)) = m /\ Compose(IdMap(N), m) = m
\* anti-homomorphism of inversion along every edge: (m ; R)^-1 = R^-1 ; m^-1
EdgeInverse == [][minv' = Compose(RotMap(Neg(lbl'[2])), minv) /\ IsInverse(m', minv')]_<<m, minv, lbl>>
\* associativity with two generators appended
AssocGens == \A G, H \in {XOp(1, N), ZOp(N, N), Neg(YOp(1, N))} :
    Compose(Compose(m, RotMap(G)), RotMap(H)) = Compose(m, Compose(RotMap(G), RotMap(H)))

\* ---------------- emission
View == m
EmitState == PrintT(ToString(<<"M", EncM(m), EncM(minv)>>))
EmitEdge == EMITEDGES => PrintT(ToString(<<"E", EncM(m), Enc(lbl'[2]), EncM(m')>>))
=============================================================================
