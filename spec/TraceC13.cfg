INIT Init
NEXT Next
INVARIANT PortEq
INVARIANT BothOK
