CONSTANTS N = 2
INIT Init
NEXT SimNext
INVARIANT GroupOK
ACTION_CONSTRAINT EmitSim
