INIT Init
NEXT Next
INVARIANT NoCrashP
INVARIANT WF
INVARIANT AddOK
INVARIANT SubOK
INVARIANT MatmulOK
INVARIANT MulOK
INVARIANT DivOK
INVARIANT NegOK
INVARIANT ReduceOK
INVARIANT TraceOK
INVARIANT CopyOK
INVARIANT RotOK
INVARIANT QutipOK
INVARIANT FrameOK
INVARIANT RefuseOK
INVARIANT KF_TracePhase
INVARIANT ConstOK
INVARIANT CastOK
INVARIANT CancelOK
