------------------------------ MODULE BinaryRep ------------------------------
(***************************************************************************)
(* L2: the library's binary representation and its bit-level kernels,      *)
(* transcribed from pyclifford/utils.py (torchclifford/utils.py vectorises *)
(* the same formulas).  g = <<x_1, z_1, ..., x_n, z_n>>, and (g, p)        *)
(* denotes  i^p * i^(x.z) prod_j X_j^x_j Z_j^z_j,  which is exactly the    *)
(* Hermitian-letter operator Sigma(g, p) below.  MC_C01/MC_C03 prove that  *)
(* the kernels refine the L1 algebra of PauliGroup.                        *)
(***************************************************************************)
EXTENDS PauliGroup

BitVecs(n) == [1..2 * n -> {0, 1}]
LetterOf(x, z) == IF x = 0 THEN (IF z = 0 THEN 0 ELSE 3) ELSE (IF z = 0 THEN 1 ELSE 2)
XBit(l) == IF l \in {1, 2} THEN 1 ELSE 0
ZBit(l) == IF l \in {2, 3} THEN 1 ELSE 0
Sigma(g, p) == [s |-> [j \in 1..(Len(g) \div 2) |-> LetterOf(g[2 * j - 1], g[2 * j])], k |-> p % 4]
BitsOf(P)   == [j \in 1..2 * NQ(P) |-> IF j % 2 = 1 THEN XBit(P.s[(j + 1) \div 2]) ELSE ZBit(P.s[j \div 2])]
Xor(g1, g2) == [j \in 1..Len(g1) |-> (g1[j] + g2[j]) % 2]

\* utils.acq
RECURSIVE AcqSum(_, _, _)
AcqSum(g1, g2, n) == IF n = 0 THEN 0
                     ELSE g1[2 * n] * g2[2 * n - 1] - g1[2 * n - 1] * g2[2 * n] + AcqSum(g1, g2, n - 1)
AcqImpl(g1, g2) == AcqSum(g1, g2, Len(g1) \div 2) % 2

\* utils.ipow
RECURSIVE IpowSum(_, _, _)
IpowSum(g1, g2, n) ==
    IF n = 0 THEN 0
    ELSE LET g1x == g1[2 * n - 1]  g1z == g1[2 * n]  g2x == g2[2 * n - 1]  g2z == g2[2 * n]
             gx == g1x + g2x       gz == g1z + g2z
         IN  g1z * g2x - g1x * g2z + 2 * ((gx \div 2) * gz + gx * (gz \div 2)) + IpowSum(g1, g2, n - 1)
IpowImpl(g1, g2) == IpowSum(g1, g2, Len(g1) \div 2) % 4

\* Pauli.__matmul__ / batch_dot element
MatmulImpl(g1, p1, g2, p2) == <<Xor(g1, g2), (p1 + p2 + IpowImpl(g1, g2)) % 4>>

\* utils.ps0 (x.z)
RECURSIVE XZ(_, _)
XZ(g, n) == IF n = 0 THEN 0 ELSE g[2 * n - 1] * g[2 * n] + XZ(g, n - 1)
Ps0Impl(g) == XZ(g, Len(g) \div 2) % 4

\* utils.clifford_rotate on one row
RotateImpl(g, p, gr, pr) == IF AcqImpl(g, gr) = 1
                            THEN <<Xor(gr, g), (pr + p + 1 + IpowImpl(gr, g)) % 4>>
                            ELSE <<gr, pr>>

\* utils.pauli_combine for one output row: ordered product of the rows selected by c
RECURSIVE CombineTo(_, _, _, _)
CombineTo(c, gs, ps, m) ==
    IF m = 0 THEN <<[j \in 1..Len(gs[1]) |-> 0], 0>>
    ELSE LET prev == CombineTo(c, gs, ps, m - 1) IN
         IF c[m] = 1 THEN <<Xor(prev[1], gs[m]), (prev[2] + ps[m] + IpowImpl(prev[1], gs[m])) % 4>>
         ELSE prev
CombineImpl(c, gs, ps) == CombineTo(c, gs, ps, Len(gs))

\* utils.pauli_transform for one input row
TransformImpl(g, p, gsmap, psmap) ==
    LET out == CombineImpl(g, gsmap, psmap) IN <<out[1], (p + Ps0Impl(g) + out[2]) % 4>>

\* utils.pauli_tokenize: letters 3z + (-1)^z x ; phase token 4 + x(11 - 9x + 2x^2) div 2
TokLetter(x, z) == 3 * z + (IF z = 0 THEN x ELSE 0 - x)
TokPhase(p)     == 4 + (p * (11 - 9 * p + 2 * p * p)) \div 2
=============================================================================
