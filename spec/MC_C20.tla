-------------------------------- MODULE MC_C20 --------------------------------
(* C20 theorems over the whole Pauli group (N given): every description of  *)
(* an operator parses to it; printing / tokenizing then parsing round-trips; *)
(* the closed-form phase-token polynomial of pauli_tokenize equals the       *)
(* table.  Every operator is emitted with all its descriptions.              *)
EXTENDS PauliSyntax, BinaryRep, TLC
CONSTANTS N
PS == PauliSet(N)
ASSUME RoundTrips == \A P \in PS :
    /\ Parse(Print(P)) = P
    /\ Parse(Tokenize(P)) = P
    /\ \A d \in Descriptions(P) : Parse(d) = P
ASSUME Injective == \A P, Q \in PS : (Print(P) = Print(Q) \/ Tokenize(P) = Tokenize(Q)) => P = Q
\* L2: the token formulas of utils.pauli_tokenize
ASSUME TokenFormulas ==
    /\ \A k \in 0..3 : TokPhase(k) = PhaseTok(k)
    /\ \A x, z \in 0..1 : TokLetter(x, z) = LetterOf(x, z)
RECURSIVE SetToSeq(_)
SetToSeq(S) == IF S = {} THEN <<>> ELSE LET x == CHOOSE x \in S : TRUE IN <<x>> \o SetToSeq(S \ {x})
ASSUME Emit == \A P \in PS : PrintT(ToString(<<"D", Enc(P), SetToSeq(Descriptions(P)), Print(P), Tokenize(P)>>))
VARIABLE x
Init == x = 0
Next == UNCHANGED x
=============================================================================
