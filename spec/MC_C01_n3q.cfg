CONSTANTS N = 3
 GROUND = FALSE
 ASSOC = FALSE
INIT Init
NEXT Next
INVARIANT TypeOK
VIEW View
ACTION_CONSTRAINT Emit
