CONSTANTS Slots = {1, 2, 3}
 MAXSTEPS = 5
INIT Init
NEXT Next
INVARIANT NoAliasing
INVARIANT EmitHist
PROPERTY OnlyTargetChanges
