INIT Init
NEXT Next
INVARIANT NoCrashK
INVARIANT ScenarioOK
INVARIANT BackwardOK
INVARIANT RoundTripOK
INVARIANT RankOK
INVARIANT OtherBackOK
INVARIANT Drift_Packing
INVARIANT Drift_CircuitRepr
