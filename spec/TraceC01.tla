------------------------------- MODULE TraceC01 -------------------------------
(* Trace specification for C01: what the real `@`, ipow, acq, acq_mat,     *)
(* batch_dot (pyclifford and torchclifford) returned is judged against the *)
(* letter algebra of PauliGroup.                                           *)
EXTENDS PauliGroup, TraceBase

WF == /\ Has("a") => WellFormed(Rec.a, Len(Rec.a) - 1)
      /\ Has("b") => WellFormed(Rec.b, Len(Rec.b) - 1)
      /\ Has("ret") /\ Rec.op = "mul" => WellFormed(Rec.ret, Len(Rec.a) - 1)
      /\ Has("rets") => \A j \in 1..Len(Rec.rets) : WellFormed(Rec.rets[j], Len(Rec.rets[j]) - 1)

\* Pauli.__matmul__ : string and phase of the product
MulOK == (Rec.op = "mul" /\ Has("ret")) => Dec(Rec.ret) = Mul(Dec(Rec.a), Dec(Rec.b))
\* utils.acq : 1 exactly when the operators anticommute
AcqOK == (Rec.op = "mul" /\ Has("acq")) => Rec.acq = AntiBit(Dec(Rec.a), Dec(Rec.b))
\* utils.ipow : sigma[g1] sigma[g2] = i^ipow sigma[g1+g2]  (phase-free operands)
IpowOK == (Rec.op = "mul" /\ Has("ipow")) =>
             Rec.ipow = Mul([Dec(Rec.a) EXCEPT !.k = 0], [Dec(Rec.b) EXCEPT !.k = 0]).k
\* acq_mat / acq_grid : whole anticommutation table of two lists
AcqMatOK == (Rec.op = "acqmat" /\ Has("mat")) =>
    /\ Len(Rec.mat) = Len(Rec.as)
    /\ \A i \in 1..Len(Rec.as) : /\ Len(Rec.mat[i]) = Len(Rec.bs)
                                 /\ \A j \in 1..Len(Rec.bs) : Rec.mat[i][j] = AntiBit(Dec(Rec.as[i]), Dec(Rec.bs[j]))
\* batch_dot / PauliPolynomial.__matmul__ / ipow_product : all pairwise products, row-major
BatchOK == (Rec.op = "batch" /\ Has("rets")) =>
    LET L1 == Len(Rec.as)  L2 == Len(Rec.bs) IN
    /\ Len(Rec.rets) = L1 * L2
    /\ \A i \in 1..L1 : \A j \in 1..L2 : Dec(Rec.rets[(i - 1) * L2 + j]) = Mul(Dec(Rec.as[i]), Dec(Rec.bs[j]))
    /\ Has("csok") => Rec.csok = TRUE
\* chains of successive products: the running product after every factor
RECURSIVE ChainFrom(_, _, _)
ChainFrom(acc, steps, j) ==
    IF j > Len(steps) THEN TRUE
    ELSE LET q == Dec(steps[j].q)
             nxt == IF steps[j].side = "R" THEN Mul(acc, q) ELSE Mul(q, acc)
         IN Dec(steps[j].ret) = nxt /\ ChainFrom(nxt, steps, j + 1)
ChainOK == (Rec.op = "chain" /\ ~Has("exc")) => ChainFrom(Dec(Rec.start), Rec.steps, 1)
=============================================================================
