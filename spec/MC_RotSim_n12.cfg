CONSTANTS N = 12
INIT Init
NEXT SimNext
ACTION_CONSTRAINT EmitSim
