INIT Init
NEXT Next
INVARIANT NoCrashC
INVARIANT WF
INVARIANT RotOK
INVARIANT RotFrameOK
INVARIANT RotMapOK
INVARIANT RotSeqOK
INVARIANT TransformOK
INVARIANT TransformFrameOK
INVARIANT EmbedOK
INVARIANT EmbedActsOK
INVARIANT CombineOK
INVARIANT Ps0OK
INVARIANT InverseOK
INVARIANT ComposeOK
INVARIANT FrameOK
INVARIANT IdentityOK
INVARIANT AssocOK
INVARIANT AntiHomOK
INVARIANT SingularOK
INVARIANT GateOK
INVARIANT GateActionOK
INVARIANT CTableOK
INVARIANT GateErrOK
