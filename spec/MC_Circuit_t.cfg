CONSTANTS MAXLEN = 4
 WITHMZ = TRUE
INIT Init
NEXT Next
INVARIANT Legal
INVARIANT DenLayout
INVARIANT PackIsFold
INVARIANT ComposeLegal
INVARIANT RoundTrip
INVARIANT Locality
INVARIANT EmitState
