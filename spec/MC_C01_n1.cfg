CONSTANTS N = 1
 GROUND = TRUE
 ASSOC = TRUE
INIT Init
NEXT Next
INVARIANT TypeOK
VIEW View
ACTION_CONSTRAINT Emit
